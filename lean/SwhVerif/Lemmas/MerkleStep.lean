import SwhVerif.Lemmas.MerkleCollect
/-!
# Merkle cache: the from-scratch specification `fresh`, acyclicity, and the step function
(C10/C14 helper lemmas, part 6)
-/
namespace Swh.Merkle
variable {H : Type}

/-! ### the specification: hashes computed from scratch -/
section
variable (hashFn : Data → List (EntryV H) → H)

/-- entries of the children in `l`, with hashes given by `fr` -/
def freshEnt (fr : Id → H) (h : Heap H) (l : List (Name × Id)) : List (EntryV H) :=
  l.map (fun kc => ⟨kc.1, (h.get kc.2).isDir, (h.get kc.2).data, fr kc.2⟩)

/-- the hash of `n` recomputed from the current structure alone (`data`, kinds, `children`),
ignoring every cache; `fuel` bounds the depth -/
def freshF : Nat → Heap H → Id → H
  | 0, h, n => hashFn (h.get n).data []
  | f + 1, h, n =>
    let es := freshEnt (freshF f h) h (h.get n).children
    hashFn (h.get n).data ((if (h.get n).isDir then sortE es else es))

/-- **the from-scratch hash** of node `n` -/
def fresh (h : Heap H) (n : Id) : H := freshF hashFn (topFuel h) h n

/-- the from-scratch value of `Directory.entries` / of the `to_model()` tuple -/
def freshEntries (h : Heap H) (n : Id) : List (EntryV H) :=
  sortE (freshEnt (fresh hashFn h) h (h.get n).children)

end

/-- The structure is acyclic: there is a strict rank on the edges, bounded by the number of
allocated nodes (on a finite graph this is equivalent to the absence of cycles; the height is
such a rank). -/
def Acyclic (h : Heap H) : Prop := ∃ rank : Id → Nat, RankOK h rank ∧ ∀ n, rank n ≤ h.size

theorem Acyclic.of_same {h h' : Heap H} (s : SameStruct h h') (a : Acyclic h) : Acyclic h' := by
  obtain ⟨rank, rk, hb⟩ := a
  exact ⟨rank, rk.of_same s, fun n => by rw [s.size]; exact hb n⟩

theorem acyclic_empty : Acyclic (Heap.empty : Heap H) :=
  ⟨fun _ => 0, fun p c hc => by simp [kids, Heap.get_empty, Node.blank] at hc, fun _ => Nat.le_refl _⟩

variable {hashFn : Data → List (EntryV H) → H}

theorem freshF_fuel (h : Heap H) (rank : Id → Nat) (rk : RankOK h rank) :
    ∀ (f1 f2 : Nat) (n : Id), rank n < f1 → rank n < f2 →
      freshF hashFn f1 h n = freshF hashFn f2 h n := by
  intro f1
  induction f1 with
  | zero => intro _ _ h1; exact absurd h1 (Nat.not_lt_zero _)
  | succ f1 ih =>
    intro f2 n h1 h2
    cases f2 with
    | zero => exact absurd h2 (Nat.not_lt_zero _)
    | succ f2 =>
      have : freshEnt (freshF hashFn f1 h) h (h.get n).children =
          freshEnt (freshF hashFn f2 h) h (h.get n).children := by
        unfold freshEnt
        apply List.map_congr_left
        intro kc hk
        have := rk n kc.2 (mem_kids_of_mem hk)
        rw [ih f2 kc.2 (by omega) (by omega)]
      simp only [freshF, this]

/-- the fixed-point equation characterising `fresh` on acyclic heaps -/
theorem fresh_eq (h : Heap H) (a : Acyclic h) (n : Id) :
    fresh hashFn h n = hashFn (h.get n).data
      ((if (h.get n).isDir then sortE (freshEnt (fresh hashFn h) h (h.get n).children)
        else freshEnt (fresh hashFn h) h (h.get n).children)) := by
  obtain ⟨rank, rk, hb⟩ := a
  have : freshEnt (freshF hashFn h.size h) h (h.get n).children =
      freshEnt (fresh hashFn h) h (h.get n).children := by
    unfold freshEnt
    apply List.map_congr_left
    intro kc hk
    have h1 := rk n kc.2 (mem_kids_of_mem hk)
    have h2 := hb n
    have h3 := hb kc.2
    unfold fresh topFuel
    rw [freshF_fuel h rank rk h.size (h.size + 1) kc.2 (by omega) (by omega)]
  show freshF hashFn (h.size + 1) h n = _
  simp only [freshF, this]

theorem entVals_eq_freshEnt (h : Heap H) (fr : Id → H) (l : List (Name × Id))
    (hl : ∀ kc ∈ l, (h.get kc.2).cache = some (fr kc.2)) : entVals h l = freshEnt fr h l := by
  unfold entVals freshEnt
  induction l with
  | nil => rfl
  | cons x t ih =>
    simp only [List.filterMap_cons, List.map_cons, hl x List.mem_cons_self, Option.map_some]
    rw [ih (fun kc hk => hl kc (List.mem_cons_of_mem _ hk))]

/-- **No stale hash, node level**: under the invariant every cached hash is the from-scratch
hash (for any fuel above the rank). -/
theorem cache_eq_freshF (h : Heap H) (i : Inv hashFn h) (rank : Id → Nat) (rk : RankOK h rank) :
    ∀ (f : Nat) (n : Id) (v : H), rank n < f → (h.get n).cache = some v →
      v = freshF hashFn f h n := by
  intro f
  induction f with
  | zero => intro _ _ h1; exact absurd h1 (Nat.not_lt_zero _)
  | succ f ih =>
    intro n v hr hv
    have hk := i.kids_cached n (by simp [Node.hasAny, hv])
    have he : entVals h (h.get n).children = freshEnt (freshF hashFn f h) h (h.get n).children := by
      apply entVals_eq_freshEnt
      intro kc hkc
      have hc := hk kc.2 (mem_kids_of_mem hkc)
      cases hcv : (h.get kc.2).cache with
      | none => exact absurd hcv hc
      | some w =>
        have := rk n kc.2 (mem_kids_of_mem hkc)
        rw [ih kc.2 w (by omega) hcv]
    rw [i.value n v hv]
    simp only [freshF, hashKids, dirEntries, he]

theorem cache_eq_fresh (h : Heap H) (i : Inv hashFn h) (a : Acyclic h) (n : Id) (v : H)
    (hv : (h.get n).cache = some v) : v = fresh hashFn h n := by
  obtain ⟨rank, rk, hb⟩ := a
  exact cache_eq_freshF h i rank rk (topFuel h) n v (by have := hb n; unfold topFuel; omega) hv

theorem dirEntries_eq_fresh (h : Heap H) (i : Inv hashFn h) (a : Acyclic h) (n : Id)
    (hk : kidsCached h n) : dirEntries h n = freshEntries hashFn h n := by
  unfold dirEntries freshEntries
  congr 1
  apply entVals_eq_freshEnt
  intro kc hkc
  have hc := hk kc.2 (mem_kids_of_mem hkc)
  cases hcv : (h.get kc.2).cache with
  | none => exact absurd hcv hc
  | some w => rw [cache_eq_fresh h i a kc.2 w hcv]

/-! ### what each operation must report -/

/-- the outputs of the reading operations are the from-scratch values of the heap `h'` reached -/
def OutOk (hashFn : Data → List (EntryV H) → H) (h' : Heap H) : Op → Out H → Prop
  | .readHash n, out => n < h'.size → out = .hash (fresh hashFn h' n)
  | .forceUpdate n, out => n < h'.size → out = .hash (fresh hashFn h' n)
  | .readEntries n, out => n < h'.size → (h'.get n).isDir = true →
      out = .entries (freshEntries hashFn h' n)
  | .readModel n, out => n < h'.size → (h'.get n).isDir = true →
      out = .model (freshEntries hashFn h' n) (fresh hashFn h' n)
  | _, _ => True

/-- result of one step: invariant kept; unless the step is a collection, every node still marked
collected kept its hash; reading operations return from-scratch values -/
structure StepPost (hashFn : Data → List (EntryV H) → H) (h : Heap H) (op : Op)
    (r : Heap H × Out H) : Prop where
  inv : Inv hashFn r.1
  coll : KInv h → (∀ n, op ≠ .collect n) → CollStable h r.1
  out : OutOk hashFn r.1 op r.2

/-- structural operations and their error exits -/
def PostIC (hashFn : Data → List (EntryV H) → H) (h : Heap H) (r : Heap H × Out H) : Prop :=
  Inv hashFn r.1 ∧ CollStable h r.1

theorem PostIC.noop {h : Heap H} (i : Inv hashFn h) (o : Out H) : PostIC hashFn h (h, o) :=
  ⟨i, CollStable.refl h⟩

theorem getItem_lt (h : Heap H) (i : Inv hashFn h) :
    ∀ (path : List Name) (x t : Id), x < h.size → getItem h x path = .ok t → t < h.size := by
  intro path
  induction path with
  | nil => intro x t hx he; simp [getItem] at he; cases he; exact hx
  | cons k rest ih =>
    intro x t hx he
    simp only [getItem] at he
    split at he
    · cases he
    · split at he
      · split at he
        · cases he
        · rename_i y hy
          have hy' : y < h.size := i.bound x y (dictGet_mem _ _ _ hy)
          split at he
          · cases he; exact hy'
          · exact ih y t hy' he
      · split at he
        · split at he
          · cases he
          · rename_i y hy
            have hy' : y < h.size := i.bound x y (dictGet_mem _ _ _ hy)
            cases he
            exact hy'
        · cases he

theorem setAt_post {h : Heap H} (i : Inv hashFn h) (t c : Id) (name : Name) (ht : t < h.size)
    (hc : c < h.size) : PostIC hashFn h (setAt h t name c) := by
  unfold setAt
  split
  · exact PostIC.noop i _
  · split
    · exact PostIC.noop i _
    · obtain ⟨a, b, _⟩ := baseSet_spec i t c name ht hc
      exact ⟨a, b⟩

theorem delAt_post {h : Heap H} (i : Inv hashFn h) (t : Id) (name : Name) (ht : t < h.size) :
    PostIC hashFn h (delAt h t name) := by
  unfold delAt
  split
  · exact PostIC.noop i _
  · split
    · exact PostIC.noop i _
    · rename_i o ho
      obtain ⟨a, b, _⟩ := baseDel_spec i t o name ht ho
      exact ⟨a, b⟩

theorem stepSet_post {h : Heap H} (i : Inv hashFn h) (p c : Id) (path : List Name) :
    PostIC hashFn h (stepSet h p path c) := by
  unfold stepSet
  split
  · exact PostIC.noop i _
  · rename_i hb
    have hpc : p < h.size ∧ c < h.size := by simpa using hb
    split
    · exact PostIC.noop i _
    · split
      · exact PostIC.noop i _
      · split
        · split
          · exact PostIC.noop i _
          · split
            · exact PostIC.noop i _
            · rename_i t ht
              exact setAt_post i t c _ (getItem_lt h i _ p t hpc.1 ht) hpc.2
        · split
          · exact setAt_post i p c _ hpc.1 hpc.2
          · exact PostIC.noop i _

theorem stepDel_post {h : Heap H} (i : Inv hashFn h) (p : Id) (path : List Name) :
    PostIC hashFn h (stepDel h p path) := by
  unfold stepDel
  split
  · exact PostIC.noop i _
  · rename_i hb
    have hp : p < h.size := by simpa using hb
    split
    · exact PostIC.noop i _
    · split
      · exact PostIC.noop i _
      · split
        · split
          · exact PostIC.noop i _
          · rename_i t ht
            exact delAt_post i t _ (getItem_lt h i _ p t hp ht)
        · split
          · exact delAt_post i p _ hp
          · exact PostIC.noop i _

theorem stepUpdate_post {h : Heap H} (i : Inv hashFn h) (p : Id) (ks : List (Name × Id)) :
    PostIC hashFn h (stepUpdate h p ks) := by
  unfold stepUpdate
  split
  · exact PostIC.noop i _
  · rename_i hb
    have hpk : p < h.size ∧ ∀ kc ∈ ks, kc.2 < h.size := by simpa using hb
    split
    · exact PostIC.noop i _
    · split
      · exact PostIC.noop i _
      · split
        · exact PostIC.noop i _
        · rename_i hv
          have hnd : (ks.map (·.1)).Nodup := by
            simp only [Bool.not_eq_true', Bool.not_eq_false, Bool.and_eq_true,
              decide_eq_true_eq] at hv
            simpa using hv.2
          split
          · exact PostIC.noop i _
          · obtain ⟨a, b, _⟩ := baseUpdate_spec i p ks hpk.1 hpk.2 hnd
            exact ⟨a, b⟩

/-- `del t[name]` touches only back-links to `t` -/
theorem delAt_links {h : Heap H} (i : Inv hashFn h) (t : Id) (name : Name) (ht : t < h.size)
    (q : Id) (hq : q ≠ t) (d : Id) :
    ((delAt h t name).1.get d).parents.count q = (h.get d).parents.count q := by
  unfold delAt
  split
  · rfl
  · split
    · rfl
    · rename_i o ho
      obtain ⟨_, _, _, l, _⟩ := baseDel_spec i t o name ht ho
      exact l q hq d

/-- `del t[name]` removes exactly one back-link `child → t` -/
theorem delAt_removes_one {h : Heap H} (i : Inv hashFn h) (t : Id) (name : Name) (ht : t < h.size)
    (hl : (h.get t).isLeaf = false) (o : Id) (ho : dictGet (h.get t).children name = some o) (d : Id) :
    ((delAt h t name).1.get d).parents.count t = (h.get d).parents.count t - ind (d = o) := by
  unfold delAt
  rw [hl]
  simp only [Bool.false_eq_true, if_false, ho]
  obtain ⟨_, _, _, _, l⟩ := baseDel_spec i t o name ht ho
  exact l d

/-- `del p[path]`: there is one node `t` (the directory the last component is removed from; `p`
itself for a single-component path) such that all back-links to other nodes are untouched. -/
theorem stepDel_links {h : Heap H} (i : Inv hashFn h) (p : Id) (path : List Name) :
    ∃ t, (path.length = 1 → t = p) ∧ ∀ q, q ≠ t → ∀ d,
      ((stepDel h p path).1.get d).parents.count q = (h.get d).parents.count q := by
  unfold stepDel
  split
  · exact ⟨p, fun _ => rfl, fun _ _ _ => rfl⟩
  · rename_i hb
    have hp : p < h.size := by simpa using hb
    split
    · exact ⟨p, fun _ => rfl, fun _ _ _ => rfl⟩
    · split
      · exact ⟨p, fun _ => rfl, fun _ _ _ => rfl⟩
      · split
        · split
          · exact ⟨p, fun _ => rfl, fun _ _ _ => rfl⟩
          · rename_i t ht
            refine ⟨t, ?_, fun q hq d => delAt_links i t _ (getItem_lt h i _ p t hp ht) q hq d⟩
            intro hlen
            match path, hlen with
            | [k], _ =>
              simp [getItem] at ht
              exact ht.symm
        · split
          · exact ⟨p, fun _ => rfl, fun q hq d => delAt_links i p _ hp q hq d⟩
          · exact ⟨p, fun _ => rfl, fun _ _ _ => rfl⟩

/-- `child.hash` as used by `entries` / `to_model()` called from outside -/
theorem hashProp_updOK {h : Heap H} (a : Acyclic h) (c : Id) (hc : c < h.size) :
    UpdOK hashFn (hashProp hashFn) h c := by
  intro g ig sg
  obtain ⟨rank, rk, hb⟩ := a
  have := updateHash_spec (hashFn := hashFn) rank (topFuel g) false g c ig (rk.of_same sg)
    (by unfold topFuel; rw [sg.size]; have := hb c; omega) (by rw [sg.size]; exact hc)
  exact ⟨this.1.inv, this.1.grows rfl, this.2⟩

theorem inv_push {h : Heap H} (i : Inv hashFn h) (d : Data) (b1 b2 : Bool) :
    Inv hashFn (h.push { data := d, isDir := b1, isLeaf := b2 }) ∧
    CollStable h (h.push { data := d, isDir := b1, isLeaf := b2 }) := by
  generalize hnd : ({ data := d, isDir := b1, isLeaf := b2 } : Node H) = nd
  have hg : ∀ j, (h.push nd).get j = if j = h.size then nd else h.get j := Heap.get_push h nd
  have hold : h.get h.size = Node.blank := Heap.get_of_ge h _ (Nat.le_refl _)
  -- the new node looks like the blank node as far as links and caches are concerned
  have hch : ∀ j, ((h.push nd).get j).children = (h.get j).children := by
    intro j; rw [hg]; by_cases e : j = h.size
    · rw [if_pos e, e, hold, ← hnd]; rfl
    · rw [if_neg e]
  have hpa : ∀ j, ((h.push nd).get j).parents = (h.get j).parents := by
    intro j; rw [hg]; by_cases e : j = h.size
    · rw [if_pos e, e, hold, ← hnd]; rfl
    · rw [if_neg e]
  have hca : ∀ j, ((h.push nd).get j).cache = (h.get j).cache := by
    intro j; rw [hg]; by_cases e : j = h.size
    · rw [if_pos e, e, hold, ← hnd]; rfl
    · rw [if_neg e]
  have hen : ∀ j, ((h.push nd).get j).entriesCache = (h.get j).entriesCache := by
    intro j; rw [hg]; by_cases e : j = h.size
    · rw [if_pos e, e, hold, ← hnd]; rfl
    · rw [if_neg e]
  have hmo : ∀ j, ((h.push nd).get j).modelCache = (h.get j).modelCache := by
    intro j; rw [hg]; by_cases e : j = h.size
    · rw [if_pos e, e, hold, ← hnd]; rfl
    · rw [if_neg e]
  have hco : ∀ j, ((h.push nd).get j).collected = (h.get j).collected := by
    intro j; rw [hg]; by_cases e : j = h.size
    · rw [if_pos e, e, hold, ← hnd]; rfl
    · rw [if_neg e]
  have hkids : ∀ p, kids (h.push nd) p = kids h p := by intro p; unfold kids; rw [hch]
  have hany : ∀ p, ((h.push nd).get p).hasAny = (h.get p).hasAny := by
    intro p; unfold Node.hasAny; rw [hca, hen, hmo]
  -- data / kind of a node that has a cached hash or is somebody's child are unchanged
  have hlt : ∀ j, j < h.size → (h.push nd).get j = h.get j := by
    intro j hj; rw [hg, if_neg (Nat.ne_of_lt hj)]
  have hvals : ∀ n, entVals (h.push nd) ((h.push nd).get n).children
      = entVals h (h.get n).children := by
    intro n
    rw [hch]
    apply entVals_congr
    intro kc hk
    rw [hlt kc.2 (i.bound n kc.2 (mem_kids_of_mem hk))]
    exact ⟨rfl, rfl, rfl⟩
  have hcached_lt : ∀ n, (h.get n).hasAny = true → n < h.size := by
    intro n hn
    apply Nat.lt_of_not_le
    intro hge
    rw [Heap.get_of_ge h n hge] at hn
    cases hn
  have hde : ∀ n, dirEntries (h.push nd) n = dirEntries h n := by
    intro n; unfold dirEntries; rw [hvals]
  refine ⟨⟨?_, ?_, ?_, ?_, ?_, ?_, ?_⟩, ?_⟩
  · intro p c hc hp
    rw [hkids] at hc; rw [hany] at hp; rw [hca]
    exact i.closure p c hc hp
  · intro n v hv
    rw [hca] at hv
    have hn := hcached_lt n (by simp [Node.hasAny, hv])
    have := i.value n v hv
    unfold hashKids at this ⊢
    rw [hde, hvals, hlt n hn]
    exact this
  · intro n e hv; rw [hen] at hv; rw [hde]; exact i.entV n e hv
  · intro n e hv; rw [hmo] at hv; rw [hde]; exact i.modV n e hv
  · intro n _
    rw [hen, hmo]
    by_cases hn : n < h.size
    · cases hd : (h.get n).isDir with
      | false => exact i.nondir n hd
      | true =>
        -- a directory: the caches may be anything, but then `n` is unchanged
        rename_i hd'
        rw [hlt n hn, hd] at hd'
        cases hd'
    · rw [Heap.get_of_ge h n (Nat.le_of_not_lt hn)]; exact ⟨rfl, rfl⟩
  · intro p c; rw [hkids, hpa]; exact i.links p c
  · intro p c hc
    rw [hkids] at hc
    rw [Heap.size_push]
    exact Nat.lt_succ_of_lt (i.bound p c hc)
  · intro m hm
    rw [hco] at hm
    exact ⟨hm, hca m⟩

end Swh.Merkle
