import SwhVerif.Model.Toposort
/-!
# Lemmas about the Kahn's-algorithm model (`SwhVerif.Model.Toposort`)

1. a declarative description of what the first pass builds (`initPass_*`);
2. the effect of one inner `for child in children[rev.id]` loop (`relax_childrenOf`);
3. the loop invariant `Inv` and its preservation (`Inv.step`), its initial validity (`Inv.init`)
   and completeness when the queue runs dry (`Inv.complete`);
4. `loop_spec` / `toposort_spec`: the output is a permutation of the log and is parents-first
   (`PFfrom`, converted to an index statement by `PFfrom.index`).

Core Lean only.
-/
namespace Swh.Toposort

/-! ## generic list facts -/

theorem nodup_map_inj' {α β} (f : α → β) (l : List α) (h : (l.map f).Nodup) :
    ∀ a ∈ l, ∀ b ∈ l, f a = f b → a = b := by
  induction l with
  | nil => intro a ha; cases ha
  | cons x xs ih =>
    simp only [List.map_cons, List.nodup_cons, List.mem_map, not_exists, not_and] at h
    intro a ha b hb hab
    simp only [List.mem_cons] at ha hb
    rcases ha with rfl | ha <;> rcases hb with rfl | hb
    · rfl
    · exact absurd hab.symm (h.1 b hb)
    · exact absurd hab (h.1 a ha)
    · exact ih h.2 a ha b hb hab

theorem nodup_of_nodup_map {α β} (f : α → β) (l : List α) (h : (l.map f).Nodup) : l.Nodup := by
  induction l with
  | nil => exact List.nodup_nil
  | cons x xs ih =>
    simp only [List.map_cons, List.nodup_cons, List.mem_map, not_exists, not_and] at h
    refine List.nodup_cons.mpr ⟨fun hx => h.1 x hx rfl, ih h.2⟩

/-- a duplicate-free list included in another one is not longer -/
theorem length_le_of_nodup_subset {α} [DecidableEq α] :
    ∀ (l₁ l₂ : List α), l₁.Nodup → (∀ a ∈ l₁, a ∈ l₂) → l₁.length ≤ l₂.length := by
  intro l₁
  induction l₁ with
  | nil => intro l₂ _ _; simp
  | cons a t ih =>
    intro l₂ hnd hsub
    have ha : a ∈ l₂ := hsub a (List.mem_cons_self)
    have hnd' := List.nodup_cons.mp hnd
    have ht : ∀ b ∈ t, b ∈ l₂.erase a := by
      intro b hb
      have hne : b ≠ a := fun h => hnd'.1 (h ▸ hb)
      exact (List.mem_erase_of_ne hne).mpr (hsub b (List.mem_cons_of_mem _ hb))
    have h1 := ih (l₂.erase a) hnd'.2 ht
    have h2 := List.length_erase_of_mem ha
    have h3 : 0 < l₂.length := List.length_pos_of_mem ha
    simp only [List.length_cons]
    omega

/-! ## what the first pass builds -/

/-- `children[x]` after the first pass: every revision of the log, in log order, once per
    occurrence of `x` in its parents -/
def childrenOf (log : List Rev) (x : RevId) : List Rev :=
  log.flatMap (fun c => List.replicate (c.parents.count x) c)

theorem childrenOf_cons (c : Rev) (cs : List Rev) (x : RevId) :
    childrenOf (c :: cs) x = List.replicate (c.parents.count x) c ++ childrenOf cs x := by
  simp [childrenOf, List.flatMap_cons]

theorem addChild_foldl (r : Rev) (ps : List RevId) (ch : RevId → List Rev) (x : RevId) :
    (ps.foldl (fun ch p => addChild ch p r) ch) x = ch x ++ List.replicate (ps.count x) r := by
  induction ps generalizing ch with
  | nil => simp
  | cons p ps ih =>
    rw [List.foldl_cons, ih, List.count_cons]
    by_cases hp : x = p
    · subst hp
      simp [addChild, List.replicate_succ]
    · have hp' : ¬ (p == x) = true := by simpa using fun h => hp h.symm
      simp [addChild, hp]
      intro h; exact absurd h.symm hp

theorem initStep_foldl_children (log : List Rev) (s : State) (x : RevId) :
    (log.foldl initStep s).children x = s.children x ++ childrenOf log x := by
  induction log generalizing s with
  | nil => simp [childrenOf]
  | cons r rs ih =>
    rw [List.foldl_cons, ih, childrenOf_cons]
    simp only [initStep, addChild_foldl, List.append_assoc]

theorem initStep_foldl_queue (log : List Rev) (s : State) :
    (log.foldl initStep s).queue = s.queue ++ log.filter (fun r => r.parents.isEmpty) := by
  induction log generalizing s with
  | nil => simp
  | cons r rs ih =>
    rw [List.foldl_cons, ih, List.filter_cons]
    by_cases h : r.parents.isEmpty = true <;> simp [initStep, h]

theorem initStep_foldl_inDeg_of_not_mem (log : List Rev) (s : State) (x : RevId)
    (hx : x ∉ log.map Rev.id) : (log.foldl initStep s).inDeg x = s.inDeg x := by
  induction log generalizing s with
  | nil => simp
  | cons r rs ih =>
    simp only [List.map_cons, List.mem_cons, not_or] at hx
    rw [List.foldl_cons, ih _ hx.2]
    simp [initStep, setDeg, hx.1]

theorem initStep_foldl_inDeg (log : List Rev) (s : State) (hnd : (log.map Rev.id).Nodup)
    (r : Rev) (hr : r ∈ log) : (log.foldl initStep s).inDeg r.id = r.parents.length := by
  induction log generalizing s with
  | nil => cases hr
  | cons a t ih =>
    simp only [List.map_cons, List.nodup_cons] at hnd
    rw [List.foldl_cons]
    rcases List.mem_cons.mp hr with rfl | hr
    · rw [initStep_foldl_inDeg_of_not_mem _ _ _ hnd.1]
      simp [initStep, setDeg]
    · exact ih _ hnd.2 hr

theorem initPass_children (log : List Rev) : (initPass log).children = childrenOf log := by
  funext x
  simp [initPass, initStep_foldl_children, State.empty]

theorem initPass_queue (log : List Rev) :
    (initPass log).queue = log.filter (fun r => r.parents.isEmpty) := by
  simp [initPass, initStep_foldl_queue, State.empty]

theorem initPass_inDeg (log : List Rev) (hnd : (log.map Rev.id).Nodup) (r : Rev) (hr : r ∈ log) :
    (initPass log).inDeg r.id = r.parents.length :=
  initStep_foldl_inDeg log _ hnd r hr

/-! ## parents still to be emitted -/

/-- number of occurrences, in the parent list `ps`, of ids not in `done` -/
def pending (done ps : List RevId) : Nat := ps.countP (fun p => decide (p ∉ done))

theorem pending_nil (ps : List RevId) : pending [] ps = ps.length := by
  unfold pending
  rw [List.countP_eq_length]
  intro a _; simp

theorem pending_eq_zero (done ps : List RevId) : pending done ps = 0 ↔ ∀ p ∈ ps, p ∈ done := by
  unfold pending
  rw [List.countP_eq_zero]
  simp

theorem pending_cons (done : List RevId) (p : RevId) (ps : List RevId) :
    pending done (p :: ps) = pending done ps + if p ∈ done then 0 else 1 := by
  unfold pending
  rw [List.countP_cons]
  by_cases h : p ∈ done <;> simp [h]

theorem pending_snoc (done : List RevId) (x : RevId) (hx : x ∉ done) (ps : List RevId) :
    pending (done ++ [x]) ps + ps.count x = pending done ps := by
  induction ps with
  | nil => simp [pending]
  | cons p ps ih =>
    rw [pending_cons, pending_cons, List.count_cons]
    by_cases hpx : p = x
    · subst hpx
      have h1 : p ∈ done ++ [p] := by simp
      rw [if_pos h1, if_neg hx]
      simp only [beq_self_eq_true, if_true]
      omega
    · have h2 : ¬ (p == x) = true := by simpa using hpx
      rw [if_neg h2]
      by_cases hpd : p ∈ done
      · have h1 : p ∈ done ++ [x] := by simp [hpd]
        rw [if_pos h1, if_pos hpd]; omega
      · have h1 : p ∉ done ++ [x] := by simp [hpd, hpx]
        rw [if_neg h1, if_neg hpd]; omega

/-! ## the inner loop -/

theorem relax_replicate (c : Rev) (k : Nat) (f : RevId → Int) (q : List Rev)
    (h : (k : Int) ≤ f c.id) :
    (∀ x, ((List.replicate k c).foldl relaxStep (f, q)).1 x
        = if x = c.id then f c.id - k else f x) ∧
    ((List.replicate k c).foldl relaxStep (f, q)).2
        = q ++ (if 0 < k ∧ f c.id = k then [c] else []) := by
  induction k generalizing f q with
  | zero => simp
  | succ k ih =>
    rw [List.replicate_succ, List.foldl_cons]
    have hstep : relaxStep (f, q) c
        = (setDeg f c.id (f c.id - 1), if f c.id - 1 = 0 then q ++ [c] else q) := rfl
    rw [hstep]
    have h1 : (k : Int) ≤ (setDeg f c.id (f c.id - 1)) c.id := by
      simp only [setDeg, if_true]; omega
    obtain ⟨ihf, ihq⟩ := ih (setDeg f c.id (f c.id - 1))
      (if f c.id - 1 = 0 then q ++ [c] else q) h1
    refine ⟨?_, ?_⟩
    · intro x
      rw [ihf x]
      by_cases hx : x = c.id
      · simp only [hx, setDeg, if_true]; omega
      · simp [hx, setDeg]
    · rw [ihq]
      have e : setDeg f c.id (f c.id - 1) c.id = f c.id - 1 := by simp [setDeg]
      rw [e]
      by_cases hz : f c.id - 1 = 0
      · rw [if_pos hz, if_neg (by omega : ¬ (0 < k ∧ f c.id - 1 = (k : Int))),
          if_pos (by omega : 0 < k + 1 ∧ f c.id = ((k + 1 : Nat) : Int))]
        simp
      · by_cases hc : 0 < k ∧ f c.id - 1 = (k : Int)
        · rw [if_neg hz, if_pos hc,
            if_pos (by omega : 0 < k + 1 ∧ f c.id = ((k + 1 : Nat) : Int))]
        · rw [if_neg hz, if_neg hc,
            if_neg (by omega : ¬ (0 < k + 1 ∧ f c.id = ((k + 1 : Nat) : Int)))]

/-- effect of `for child in children[x]` when the children are those of a log `cs` with distinct
    ids and every counter is at least the number of decrements it will receive -/
theorem relax_childrenOf (x : RevId) (cs : List Rev) (hnd : (cs.map Rev.id).Nodup)
    (f : RevId → Int) (q : List Rev)
    (hge : ∀ c ∈ cs, ((c.parents.count x : Nat) : Int) ≤ f c.id) :
    (∀ c ∈ cs, ((childrenOf cs x).foldl relaxStep (f, q)).1 c.id
        = f c.id - (c.parents.count x : Nat)) ∧
    (∀ y, y ∉ cs.map Rev.id → ((childrenOf cs x).foldl relaxStep (f, q)).1 y = f y) ∧
    ((childrenOf cs x).foldl relaxStep (f, q)).2
        = q ++ cs.filter (fun c => decide (0 < c.parents.count x ∧
            f c.id = (c.parents.count x : Nat))) := by
  induction cs generalizing f q with
  | nil => simp [childrenOf]
  | cons c cs ih =>
    simp only [List.map_cons, List.nodup_cons] at hnd
    rw [childrenOf_cons, List.foldl_append]
    obtain ⟨rf, rq⟩ := relax_replicate c (c.parents.count x) f q (hge c List.mem_cons_self)
    generalize hres : (List.replicate (c.parents.count x) c).foldl relaxStep (f, q) = res at rf rq
    obtain ⟨f1, q1⟩ := res
    simp only at rf rq
    have hne : ∀ c' ∈ cs, c'.id ≠ c.id := by
      intro c' hc' he
      exact hnd.1 (List.mem_map.mpr ⟨c', hc', he⟩)
    have hf1 : ∀ c' ∈ cs, f1 c'.id = f c'.id := by
      intro c' hc'
      rw [rf, if_neg (hne c' hc')]
    have hge1 : ∀ c' ∈ cs, ((c'.parents.count x : Nat) : Int) ≤ f1 c'.id := by
      intro c' hc'
      rw [hf1 c' hc']
      exact hge c' (List.mem_cons_of_mem _ hc')
    obtain ⟨i1, i2, i3⟩ := ih hnd.2 f1 q1 hge1
    refine ⟨?_, ?_, ?_⟩
    · intro c' hc'
      rcases List.mem_cons.mp hc' with rfl | hc'
      · rw [i2 _ hnd.1, rf]; simp
      · rw [i1 c' hc', hf1 c' hc']
    · intro y hy
      simp only [List.map_cons, List.mem_cons, not_or] at hy
      rw [i2 y hy.2, rf, if_neg hy.1]
    · rw [i3, rq, List.append_assoc]
      congr 1
      simp only [List.filter_cons]
      have hcongr : cs.filter (fun c => decide (0 < c.parents.count x ∧
            f1 c.id = (c.parents.count x : Nat)))
          = cs.filter (fun c => decide (0 < c.parents.count x ∧
            f c.id = (c.parents.count x : Nat))) := by
        apply List.filter_congr
        intro c' hc'
        rw [hf1 c' hc']
      rw [hcongr]
      by_cases hc : 0 < c.parents.count x ∧ f c.id = (c.parents.count x : Nat)
      · rw [if_pos hc, if_pos (decide_eq_true hc)]; rfl
      · rw [if_neg hc, if_neg (fun h => hc (of_decide_eq_true h))]; rfl

/-! ## the loop invariant -/

/-- invariant of the `while queue` loop: `out` is what has been yielded so far -/
structure Inv (log : List Rev) (f : RevId → Int) (q out : List Rev) : Prop where
  sub : ∀ r ∈ out ++ q, r ∈ log
  nodup : (out ++ q).Nodup
  deg : ∀ r ∈ log, f r.id = (pending (out.map Rev.id) r.parents : Nat)
  zero : ∀ r ∈ log, (r ∈ out ++ q ↔ f r.id = 0)

theorem Inv.init (log : List Rev) (hnd : (log.map Rev.id).Nodup) :
    Inv log (initPass log).inDeg (initPass log).queue [] := by
  rw [initPass_queue]
  refine ⟨?_, ?_, ?_, ?_⟩
  · intro r hr
    simp only [List.nil_append, List.mem_filter] at hr
    exact hr.1
  · simp only [List.nil_append]
    exact List.filter_sublist.nodup (nodup_of_nodup_map _ _ hnd)
  · intro r hr
    rw [initPass_inDeg log hnd r hr]
    simp [pending_nil]
  · intro r hr
    rw [initPass_inDeg log hnd r hr]
    simp only [List.nil_append, List.mem_filter, hr, true_and, List.isEmpty_iff]
    constructor
    · intro h; simp [h]
    · intro h
      have : r.parents.length = 0 := by omega
      exact List.eq_nil_of_length_eq_zero this

/-- the popped revision has all its parents among the already-yielded ones -/
theorem Inv.head_parents {log f r q out} (h : Inv log f (r :: q) out) :
    ∀ p ∈ r.parents, p ∈ out.map Rev.id := by
  have hr : r ∈ log := h.sub r (by simp)
  have h0 : f r.id = 0 := (h.zero r hr).mp (by simp)
  have hd := h.deg r hr
  rw [h0] at hd
  exact (pending_eq_zero _ _).mp (by omega)

/-- one iteration of the `while` loop preserves the invariant -/
theorem Inv.step {log f r q out} (hnd : (log.map Rev.id).Nodup) (h : Inv log f (r :: q) out) :
    Inv log ((childrenOf log r.id).foldl relaxStep (f, q)).1
      ((childrenOf log r.id).foldl relaxStep (f, q)).2 (out ++ [r]) := by
  have hinj := nodup_map_inj' Rev.id log hnd
  have hr : r ∈ log := h.sub r (by simp)
  have hnd0 := h.nodup
  -- `r.id` has not been yielded yet
  have hrid : r.id ∉ out.map Rev.id := by
    intro hm
    obtain ⟨o, ho, he⟩ := List.mem_map.mp hm
    have : o = r := hinj o (h.sub o (by simp [ho])) r hr he
    subst this
    have := (List.nodup_append.mp hnd0).2.2 o ho o (by simp)
    exact this rfl
  have hpend : ∀ c : Rev, (pending (out.map Rev.id ++ [r.id]) c.parents : Nat) + c.parents.count r.id
      = pending (out.map Rev.id) c.parents := fun c => pending_snoc _ _ hrid c.parents
  have hge : ∀ c ∈ log, ((c.parents.count r.id : Nat) : Int) ≤ f c.id := by
    intro c hc
    rw [h.deg c hc]
    have := hpend c
    omega
  obtain ⟨r1, r2, r3⟩ := relax_childrenOf r.id log hnd f q hge
  generalize (childrenOf log r.id).foldl relaxStep (f, q) = res at r1 r2 r3
  obtain ⟨f', q'⟩ := res
  simp only at r1 r2 r3 ⊢
  have hmem : ∀ c : Rev, c ∈ (out ++ [r]) ++ q' ↔
      (c ∈ out ++ r :: q ∨ (c ∈ log ∧ 0 < c.parents.count r.id ∧
        f c.id = (c.parents.count r.id : Nat))) := by
    intro c
    rw [r3]
    simp only [List.mem_append, List.mem_cons, List.mem_filter, decide_eq_true_eq,
      List.not_mem_nil, or_false]
    constructor
    · rintro ((h1 | h1) | h1 | h1)
      · exact Or.inl (Or.inl h1)
      · exact Or.inl (Or.inr (Or.inl h1))
      · exact Or.inl (Or.inr (Or.inr h1))
      · exact Or.inr h1
    · rintro ((h1 | h1 | h1) | h1)
      · exact Or.inl (Or.inl h1)
      · exact Or.inl (Or.inr h1)
      · exact Or.inr (Or.inl h1)
      · exact Or.inr (Or.inr h1)
  refine ⟨?_, ?_, ?_, ?_⟩
  · intro c hc
    rcases (hmem c).mp hc with h1 | h1
    · exact h.sub c h1
    · exact h1.1
  · rw [r3, ← List.append_assoc]
    have hnd1 : (out ++ [r] ++ q).Nodup := by
      have : (out ++ [r] ++ q) = out ++ r :: q := by simp
      rw [this]; exact hnd0
    refine List.nodup_append.mpr ⟨hnd1, ?_, ?_⟩
    · exact List.filter_sublist.nodup (nodup_of_nodup_map _ _ hnd)
    · intro a ha b hb hab
      subst hab
      have ha' : a ∈ out ++ r :: q := by
        simp only [List.mem_append, List.mem_cons, List.not_mem_nil,
          or_false] at ha ⊢
        rcases ha with (h1 | h1) | h1
        · exact Or.inl h1
        · exact Or.inr (Or.inl h1)
        · exact Or.inr (Or.inr h1)
      simp only [List.mem_filter, decide_eq_true_eq] at hb
      have := (h.zero a hb.1).mp ha'
      omega
  · intro c hc
    rw [r1 c hc, h.deg c hc, List.map_append]
    have := hpend c
    simp only [List.map_cons, List.map_nil]
    omega
  · intro c hc
    rw [hmem c, r1 c hc]
    have hz := h.zero c hc
    have hd := h.deg c hc
    have hp := hpend c
    constructor
    · rintro (h1 | h1)
      · have := hz.mp h1
        omega
      · omega
    · intro h1
      by_cases h2 : c ∈ out ++ r :: q
      · exact Or.inl h2
      · refine Or.inr ⟨hc, ?_, ?_⟩
        · have : f c.id ≠ 0 := fun h0 => h2 (hz.mpr h0)
          omega
        · omega

/-- when the queue is empty every revision of a well-formed log has been yielded -/
theorem Inv.complete {log f out} (h : Inv log f [] out)
    (hpar : ∀ r ∈ log, ∀ p ∈ r.parents, ∃ q ∈ log, q.id = p)
    (rank : RevId → Nat) (hrank : ∀ r ∈ log, ∀ p ∈ r.parents, rank p < rank r.id) :
    ∀ r ∈ log, r ∈ out := by
  have key : ∀ n, ∀ r ∈ log, rank r.id < n → r ∈ out := by
    intro n
    induction n with
    | zero => intro r _ hlt; omega
    | succ n ih =>
      intro r hr hlt
      have hall : ∀ p ∈ r.parents, p ∈ out.map Rev.id := by
        intro p hp
        obtain ⟨q, hq, hqp⟩ := hpar r hr p hp
        have := hrank r hr p hp
        have hqo : q ∈ out := ih q hq (by rw [hqp]; omega)
        exact List.mem_map.mpr ⟨q, hqo, hqp⟩
      have h0 : f r.id = 0 := by
        rw [h.deg r hr, (pending_eq_zero _ _).mpr hall]; rfl
      simpa using (h.zero r hr).mpr h0
  intro r hr
  exact key (rank r.id + 1) r hr (Nat.lt_succ_self _)

/-! ## parents-first lists -/

/-- every element of the list has all its parent ids among `seen` or among the ids of the
    elements before it -/
def PFfrom : List RevId → List Rev → Prop
  | _, [] => True
  | seen, r :: rs => (∀ p ∈ r.parents, p ∈ seen) ∧ PFfrom (seen ++ [r.id]) rs

theorem PFfrom.index : ∀ (l : List Rev) (seen : List RevId), PFfrom seen l →
    ∀ (i : Nat) (r : Rev), l[i]? = some r → ∀ p ∈ r.parents,
      p ∈ seen ∨ ∃ j, j < i ∧ ∃ q, l[j]? = some q ∧ q.id = p := by
  intro l
  induction l with
  | nil => intro seen _ i r hi; simp at hi
  | cons a t ih =>
    intro seen hpf i r hi p hp
    obtain ⟨h1, h2⟩ := hpf
    cases i with
    | zero =>
      simp only [List.getElem?_cons_zero, Option.some.injEq] at hi
      subst hi
      exact Or.inl (h1 p hp)
    | succ i =>
      rw [List.getElem?_cons_succ] at hi
      rcases ih _ h2 i r hi p hp with h3 | ⟨j, hj, q, hq, hqp⟩
      · rcases List.mem_append.mp h3 with h4 | h4
        · exact Or.inl h4
        · simp only [List.mem_singleton] at h4
          exact Or.inr ⟨0, Nat.succ_pos _, a, by simp, h4.symm⟩
      · exact Or.inr ⟨j + 1, Nat.succ_lt_succ hj, q, by simpa using hq, hqp⟩

/-! ## the loop -/

theorem loop_spec (log : List Rev) (hnd : (log.map Rev.id).Nodup)
    (hpar : ∀ r ∈ log, ∀ p ∈ r.parents, ∃ q ∈ log, q.id = p)
    (rank : RevId → Nat) (hrank : ∀ r ∈ log, ∀ p ∈ r.parents, rank p < rank r.id) :
    ∀ (fuel : Nat) (f : RevId → Int) (q out : List Rev), Inv log f q out →
      log.length < fuel + out.length →
      (out ++ loop (childrenOf log) fuel f q).Perm log ∧
      PFfrom (out.map Rev.id) (loop (childrenOf log) fuel f q) := by
  have hlog : log.Nodup := nodup_of_nodup_map _ _ hnd
  intro fuel
  induction fuel with
  | zero =>
    intro f q out h hlen
    have hout : out.Nodup := (List.nodup_append.mp h.nodup).1
    have := length_le_of_nodup_subset out log hout (fun a ha => h.sub a (by simp [ha]))
    omega
  | succ fuel ih =>
    intro f q out h hlen
    cases q with
    | nil =>
      simp only [loop, List.append_nil, PFfrom, and_true]
      have hout : out.Nodup := by simpa using h.nodup
      rw [List.perm_ext_iff_of_nodup hout hlog]
      intro a
      exact ⟨fun ha => h.sub a (by simp [ha]), h.complete hpar rank hrank a⟩
    | cons r q =>
      have hstep := h.step hnd
      have hpar' := h.head_parents
      simp only [loop]
      have hlen' : log.length < fuel + (out ++ [r]).length := by
        simp only [List.length_append, List.length_cons, List.length_nil]; omega
      obtain ⟨p1, p2⟩ := ih _ _ (out ++ [r]) hstep hlen'
      refine ⟨?_, hpar', ?_⟩
      · simpa using p1
      · simpa using p2

/-- the model's `toposort` on a well-formed log (hypotheses unbundled; `Swh.C20.WfLog` bundles
    them): a permutation of the log, parents-first from an empty `seen` set.  The fuel
    `2 * |log| + 1` of the model is more than the `|log| + 1` needed here. -/
theorem toposort_spec (log : List Rev) (hnd : (log.map Rev.id).Nodup)
    (hpar : ∀ r ∈ log, ∀ p ∈ r.parents, ∃ q ∈ log, q.id = p)
    (rank : RevId → Nat) (hrank : ∀ r ∈ log, ∀ p ∈ r.parents, rank p < rank r.id) :
    (toposort log).Perm log ∧ PFfrom [] (toposort log) := by
  have hinit := Inv.init log hnd
  have := loop_spec log hnd hpar rank hrank (2 * log.length + 1)
    (initPass log).inDeg (initPass log).queue [] hinit (by simp only [List.length_nil]; omega)
  unfold toposort
  simp only [initPass_children]
  simpa using this

end Swh.Toposort
