import SwhVerif.Model.Frozen
/-!
  Lemmas about the heap model of `ImmutableDict` (`Swh.Frozen`): association-list primitives,
  allocation-only heap extensions (`Ext`), the frame relation on private locations (`Frame`),
  the deep copy, the invariant `Inv` and its preservation by every operation.
-/
namespace Swh.Frozen

/-! ### association lists -/

section Assoc
variable {α β : Type}

theorem lookup_map (f : α → β) (k : Key) (l : List (Key × α)) :
    lookup k (l.map (fun kv => (kv.1, f kv.2))) = (lookup k l).map f := by
  induction l with
  | nil => rfl
  | cons a r ih =>
    obtain ⟨k', v⟩ := a
    by_cases hk : k' = k <;> simp [lookup, hk, ih]

theorem delItem_map (f : α → β) (k : Key) (l : List (Key × α)) :
    delItem k (l.map (fun kv => (kv.1, f kv.2))) = (delItem k l).map (fun kv => (kv.1, f kv.2)) := by
  induction l with
  | nil => rfl
  | cons a r ih =>
    obtain ⟨k', v⟩ := a
    by_cases hk : k' = k <;> simp [delItem, hk, ih]

theorem mem_delItem {k : Key} {l : List (Key × α)} {x : Key × α} (hx : x ∈ delItem k l) : x ∈ l := by
  induction l with
  | nil => simp [delItem] at hx
  | cons a r ih =>
    obtain ⟨k', v⟩ := a
    by_cases hk : k' = k
    · simp [delItem, hk] at hx; simp [hx]
    · simp [delItem, hk] at hx
      rcases hx with hx | hx
      · simp [hx]
      · simp [ih hx]

theorem lookup_delItem_self (k : Key) (l : List (Key × α))
    (hnd : (l.map (·.1)).Nodup) : lookup k (delItem k l) = none := by
  induction l with
  | nil => rfl
  | cons a r ih =>
    obtain ⟨k', v⟩ := a
    simp only [List.map_cons, List.nodup_cons] at hnd
    by_cases hk : k' = k
    · subst hk
      simp only [delItem, if_true]
      have : ∀ (r : List (Key × α)), k' ∉ r.map (·.1) → lookup k' r = none := by
        intro r hr
        induction r with
        | nil => rfl
        | cons b r ih2 =>
          obtain ⟨k2, v2⟩ := b
          simp only [List.map_cons, List.mem_cons, not_or] at hr
          have hne : k2 ≠ k' := fun e => hr.1 e.symm
          simp [lookup, hne, ih2 hr.2]
      exact this r hnd.1
    · simp [delItem, hk, lookup, ih hnd.2]

theorem lookup_delItem_ne {k k2 : Key} (hne : k2 ≠ k) (l : List (Key × α)) :
    lookup k2 (delItem k l) = lookup k2 l := by
  induction l with
  | nil => rfl
  | cons a r ih =>
    obtain ⟨k', v⟩ := a
    by_cases hk : k' = k
    · subst hk
      have : k' ≠ k2 := fun e => hne e.symm
      simp [delItem, lookup, this]
    · by_cases hk2 : k' = k2
      · subst hk2; simp [delItem, hk, lookup]
      · simp [delItem, hk, lookup, hk2, ih]

/-! #### `setItem` / `ofPairs`: first-occurrence position, last value -/

theorem lookup_setItem_self (k : Key) (v : α) (l : List (Key × α)) :
    lookup k (setItem k v l) = some v := by
  induction l with
  | nil => simp [setItem, lookup]
  | cons a r ih =>
    obtain ⟨k', v'⟩ := a
    by_cases hk : k' = k <;> simp [setItem, hk, lookup, ih]

theorem lookup_setItem_ne {k k2 : Key} (hne : k2 ≠ k) (v : α) (l : List (Key × α)) :
    lookup k2 (setItem k v l) = lookup k2 l := by
  induction l with
  | nil =>
    have : k ≠ k2 := fun e => hne e.symm
    simp [setItem, lookup, this]
  | cons a r ih =>
    obtain ⟨k', v'⟩ := a
    by_cases hk : k' = k
    · subst hk
      have : k' ≠ k2 := fun e => hne e.symm
      simp [setItem, lookup, this]
    · by_cases hk2 : k' = k2
      · subst hk2; simp [setItem, hk, lookup]
      · simp [setItem, hk, lookup, hk2, ih]

/-- the keys after `d[k] = v`: unchanged when `k` is present, `k` appended otherwise -/
theorem keys_setItem (k : Key) (v : α) (l : List (Key × α)) :
    (setItem k v l).map (·.1) = if k ∈ l.map (·.1) then l.map (·.1) else l.map (·.1) ++ [k] := by
  induction l with
  | nil => simp [setItem]
  | cons a r ih =>
    obtain ⟨k', v'⟩ := a
    by_cases hk : k' = k
    · subst hk; simp [setItem]
    · have hk' : ¬ k = k' := fun e => hk e.symm
      simp only [setItem, hk, if_false, List.map_cons, List.mem_cons, hk', false_or, ih]
      by_cases hm : k ∈ r.map (·.1) <;> simp [hm]

theorem nodup_setItem (k : Key) (v : α) (l : List (Key × α)) (hnd : (l.map (·.1)).Nodup) :
    ((setItem k v l).map (·.1)).Nodup := by
  rw [keys_setItem]
  by_cases hm : k ∈ l.map (·.1)
  · simpa [hm] using hnd
  · simp only [hm, if_false]
    rw [List.nodup_append]
    refine ⟨hnd, by simp, ?_⟩
    intro a ha b hb
    simp at hb
    subst hb
    intro e; subst e; exact hm ha

theorem ofPairs_foldl_nodup (ps : List (Key × α)) (acc : List (Key × α))
    (hnd : (acc.map (·.1)).Nodup) :
    ((ps.foldl (fun acc kv => setItem kv.1 kv.2 acc) acc).map (·.1)).Nodup := by
  induction ps generalizing acc with
  | nil => simpa using hnd
  | cons p ps ih => exact ih _ (nodup_setItem _ _ _ hnd)

/-- `dict(ps)` has distinct keys -/
theorem ofPairs_nodup (ps : List (Key × α)) : ((ofPairs ps).map (·.1)).Nodup :=
  ofPairs_foldl_nodup ps [] (by simp)

/-- the value of the LAST occurrence of a key (helper, with an accumulator) -/
theorem lookup_foldl_setItem (k : Key) (ps acc : List (Key × α)) :
    lookup k (ps.foldl (fun acc kv => setItem kv.1 kv.2 acc) acc) =
      match lookup k ps.reverse with
      | some v => some v
      | none => lookup k acc := by
  induction ps generalizing acc with
  | nil => simp [lookup]
  | cons p ps ih =>
    obtain ⟨k', v'⟩ := p
    rw [List.foldl_cons, ih]
    have happ : ∀ (l : List (Key × α)), lookup k (l ++ [(k', v')]) =
        match lookup k l with
        | some v => some v
        | none => if k' = k then some v' else none := by
      intro l
      induction l with
      | nil => simp [lookup]
      | cons b l ihl =>
        obtain ⟨k2, v2⟩ := b
        by_cases h2 : k2 = k <;> simp [lookup, h2, ihl]
    rw [List.reverse_cons, happ]
    cases hl : lookup k ps.reverse with
    | some v => rfl
    | none =>
      by_cases hk : k' = k
      · subst hk; simp [lookup_setItem_self]
      · have : k ≠ k' := fun e => hk e.symm
        simp [hk, lookup_setItem_ne this]

/-- `dict(ps)[k]` is the value of the LAST pair of `ps` with key `k` -/
theorem lookup_ofPairs (k : Key) (ps : List (Key × α)) :
    lookup k (ofPairs ps) = lookup k ps.reverse := by
  unfold ofPairs
  rw [lookup_foldl_setItem]
  cases lookup k ps.reverse <;> simp [lookup]

/-- keys in order of first occurrence -/
def firstKeys : List Key → List Key → List Key
  | seen, [] => seen
  | seen, k :: ks => if k ∈ seen then firstKeys seen ks else firstKeys (seen ++ [k]) ks

theorem keys_foldl_setItem (ps acc : List (Key × α)) :
    (ps.foldl (fun acc kv => setItem kv.1 kv.2 acc) acc).map (·.1) =
      firstKeys (acc.map (·.1)) (ps.map (·.1)) := by
  induction ps generalizing acc with
  | nil => simp [firstKeys]
  | cons p ps ih =>
    rw [List.foldl_cons, ih, keys_setItem]
    by_cases hm : p.1 ∈ acc.map (·.1) <;> simp [firstKeys, hm]

/-- the keys of `dict(ps)` are the keys of `ps` in order of FIRST occurrence -/
theorem keys_ofPairs (ps : List (Key × α)) :
    (ofPairs ps).map (·.1) = firstKeys [] (ps.map (·.1)) := by
  unfold ofPairs
  simpa using keys_foldl_setItem ps []

end Assoc

/-! ### projections of the heap updates -/

section Proj
variable (h : Heap) (its : List (Key × Val)) (xs : List Nat) (p : Bool) (d : Loc)

@[simp] theorem allocDict_next : (h.allocDict its p).next = h.next + 1 := rfl
@[simp] theorem allocDict_dicts (x : Loc) :
    (h.allocDict its p).dicts x = if x = h.next then its else h.dicts x := rfl
@[simp] theorem allocDict_lists : (h.allocDict its p).lists = h.lists := rfl
@[simp] theorem allocDict_priv (x : Loc) :
    (h.allocDict its p).priv x = if x = h.next then p else h.priv x := rfl
@[simp] theorem allocDict_isDict (x : Loc) :
    (h.allocDict its p).isDict x = if x = h.next then true else h.isDict x := rfl
@[simp] theorem allocDict_frozen : (h.allocDict its p).frozen = h.frozen := rfl

@[simp] theorem allocList_next : (h.allocList xs p).next = h.next + 1 := rfl
@[simp] theorem allocList_dicts : (h.allocList xs p).dicts = h.dicts := rfl
@[simp] theorem allocList_lists (x : Loc) :
    (h.allocList xs p).lists x = if x = h.next then xs else h.lists x := rfl
@[simp] theorem allocList_priv (x : Loc) :
    (h.allocList xs p).priv x = if x = h.next then p else h.priv x := rfl
@[simp] theorem allocList_isDict (x : Loc) :
    (h.allocList xs p).isDict x = if x = h.next then false else h.isDict x := rfl
@[simp] theorem allocList_frozen : (h.allocList xs p).frozen = h.frozen := rfl

@[simp] theorem setDict_next : (h.setDict d its).next = h.next := rfl
@[simp] theorem setDict_dicts (x : Loc) :
    (h.setDict d its).dicts x = if x = d then its else h.dicts x := rfl
@[simp] theorem setDict_lists : (h.setDict d its).lists = h.lists := rfl
@[simp] theorem setDict_priv : (h.setDict d its).priv = h.priv := rfl
@[simp] theorem setDict_isDict : (h.setDict d its).isDict = h.isDict := rfl
@[simp] theorem setDict_frozen : (h.setDict d its).frozen = h.frozen := rfl

@[simp] theorem setList_next : (h.setList d xs).next = h.next := rfl
@[simp] theorem setList_dicts : (h.setList d xs).dicts = h.dicts := rfl
@[simp] theorem setList_lists (x : Loc) :
    (h.setList d xs).lists x = if x = d then xs else h.lists x := rfl
@[simp] theorem setList_priv : (h.setList d xs).priv = h.priv := rfl
@[simp] theorem setList_isDict : (h.setList d xs).isDict = h.isDict := rfl
@[simp] theorem setList_frozen : (h.setList d xs).frozen = h.frozen := rfl

@[simp] theorem record_next : (h.record d).next = h.next := rfl
@[simp] theorem record_dicts : (h.record d).dicts = h.dicts := rfl
@[simp] theorem record_lists : (h.record d).lists = h.lists := rfl
@[simp] theorem record_priv : (h.record d).priv = h.priv := rfl
@[simp] theorem record_isDict : (h.record d).isDict = h.isDict := rfl
@[simp] theorem record_frozen : (h.record d).frozen = h.frozen ++ [d] := rfl

end Proj

@[simp] theorem resolve_nil (ls : Loc → List Nat) : resolve ls [] = [] := rfl
@[simp] theorem resolve_cons (ls : Loc → List Nat) (k : Key) (v : Val) (r : List (Key × Val)) :
    resolve ls ((k, v) :: r) = (k, resolveVal ls v) :: resolve ls r := rfl
@[simp] theorem resolveVal_atom (ls : Loc → List Nat) (n : Nat) : resolveVal ls (.atom n) = .atom n := rfl
@[simp] theorem resolveVal_listRef (ls : Loc → List Nat) (l : Loc) :
    resolveVal ls (.listRef l) = .list (ls l) := rfl

/-! ### allocation-only extensions -/

/-- every private location is allocated -/
def PrivLt (h : Heap) : Prop := ∀ l, h.priv l = true → l < h.next

/-- `h'` is `h` plus fresh locations (nothing allocated in `h` is touched) -/
structure Ext (h h' : Heap) : Prop where
  next_le : h.next ≤ h'.next
  dicts_eq : ∀ x, x < h.next → h'.dicts x = h.dicts x
  lists_eq : ∀ x, x < h.next → h'.lists x = h.lists x
  priv_eq : ∀ x, x < h.next → h'.priv x = h.priv x
  isDict_eq : ∀ x, x < h.next → h'.isDict x = h.isDict x
  priv_new : ∀ x, h.next ≤ x → h'.priv x = true → h.priv x = true ∨ x < h'.next
  frozen_eq : h'.frozen = h.frozen

theorem Ext.refl (h : Heap) : Ext h h :=
  ⟨Nat.le_refl _, fun _ _ => rfl, fun _ _ => rfl, fun _ _ => rfl, fun _ _ => rfl,
    fun _ _ hx => Or.inl hx, rfl⟩

theorem Ext.trans {a b c : Heap} (h1 : Ext a b) (h2 : Ext b c) : Ext a c where
  next_le := Nat.le_trans h1.next_le h2.next_le
  dicts_eq x hx := by rw [h2.dicts_eq x (Nat.lt_of_lt_of_le hx h1.next_le), h1.dicts_eq x hx]
  lists_eq x hx := by rw [h2.lists_eq x (Nat.lt_of_lt_of_le hx h1.next_le), h1.lists_eq x hx]
  priv_eq x hx := by rw [h2.priv_eq x (Nat.lt_of_lt_of_le hx h1.next_le), h1.priv_eq x hx]
  isDict_eq x hx := by rw [h2.isDict_eq x (Nat.lt_of_lt_of_le hx h1.next_le), h1.isDict_eq x hx]
  priv_new x hx hpx := by
    by_cases hb : x < b.next
    · exact Or.inr (Nat.lt_of_lt_of_le hb h2.next_le)
    · rcases h2.priv_new x (Nat.le_of_not_lt hb) hpx with hbp | hlt
      · rcases h1.priv_new x hx hbp with hap | hlt
        · exact Or.inl hap
        · exact absurd hlt hb
      · exact Or.inr hlt
  frozen_eq := by rw [h2.frozen_eq, h1.frozen_eq]

theorem Ext.privLt {h h' : Heap} (he : Ext h h') (hp : PrivLt h) : PrivLt h' := by
  intro l hl
  by_cases hb : l < h.next
  · exact Nat.lt_of_lt_of_le hb he.next_le
  · rcases he.priv_new l (Nat.le_of_not_lt hb) hl with h1 | h1
    · exact absurd (hp l h1) hb
    · exact h1

theorem ext_allocDict (h : Heap) (its : List (Key × Val)) (p : Bool) : Ext h (h.allocDict its p) where
  next_le := by simp
  dicts_eq x hx := by simp [Nat.ne_of_lt hx]
  lists_eq x hx := by simp
  priv_eq x hx := by simp [Nat.ne_of_lt hx]
  isDict_eq x hx := by simp [Nat.ne_of_lt hx]
  priv_new x hx hpx := by
    by_cases he : x = h.next
    · right; simp [he]
    · left; simpa [he] using hpx
  frozen_eq := rfl

theorem ext_allocList (h : Heap) (xs : List Nat) (p : Bool) : Ext h (h.allocList xs p) where
  next_le := by simp
  dicts_eq x hx := by simp
  lists_eq x hx := by simp [Nat.ne_of_lt hx]
  priv_eq x hx := by simp [Nat.ne_of_lt hx]
  isDict_eq x hx := by simp [Nat.ne_of_lt hx]
  priv_new x hx hpx := by
    by_cases he : x = h.next
    · right; simp [he]
    · left; simpa [he] using hpx
  frozen_eq := rfl

/-- writing a dictionary that did not exist in `h` keeps the extension -/
theorem Ext.setDict_new {h h' : Heap} (he : Ext h h') (d : Loc) (hd : h.next ≤ d)
    (its : List (Key × Val)) : Ext h (h'.setDict d its) where
  next_le := he.next_le
  dicts_eq x hx := by
    have : x ≠ d := fun e => by subst e; exact Nat.lt_irrefl _ (Nat.lt_of_lt_of_le hx hd)
    simp [this, he.dicts_eq x hx]
  lists_eq x hx := by simp [he.lists_eq x hx]
  priv_eq x hx := by simp [he.priv_eq x hx]
  isDict_eq x hx := by simp [he.isDict_eq x hx]
  priv_new x hx hpx := he.priv_new x hx hpx
  frozen_eq := he.frozen_eq

/-! ### the copy of the items -/

theorem copyItems_ext (src : Loc → List Nat) (h : Heap) (its : List (Key × Val)) :
    Ext h (copyItems src h its).1 := by
  induction its generalizing h with
  | nil => exact Ext.refl h
  | cons a rest ih =>
    obtain ⟨k, v⟩ := a
    cases v with
    | atom n => exact ih h
    | listRef l => exact (ext_allocList h (src l) true).trans (ih _)

/-- every reference in the copy is a fresh private list -/
theorem copyItems_refs (src : Loc → List Nat) (h : Heap) (its : List (Key × Val)) (k : Key) (l : Loc)
    (hm : (k, Val.listRef l) ∈ (copyItems src h its).2) :
    h.next ≤ l ∧ l < (copyItems src h its).1.next ∧ (copyItems src h its).1.priv l = true := by
  induction its generalizing h with
  | nil => simp [copyItems] at hm
  | cons a rest ih =>
    obtain ⟨k', v⟩ := a
    cases v with
    | atom n =>
      simp only [copyItems, List.mem_cons, Prod.mk.injEq, reduceCtorEq, and_false, false_or] at hm
      exact ih h hm
    | listRef l' =>
      simp only [copyItems, List.mem_cons, Prod.mk.injEq, Val.listRef.injEq] at hm
      have he := copyItems_ext src (h.allocList (src l') true) rest
      rcases hm with ⟨_, hl⟩ | hm
      · subst hl
        refine ⟨Nat.le_refl _, Nat.lt_of_lt_of_le (by simp) he.next_le, ?_⟩
        simp only [copyItems]
        rw [he.priv_eq h.next (by simp)]
        simp
      · have := ih _ hm
        simp only [allocList_next] at this
        exact ⟨Nat.le_of_succ_le this.1, this.2.1, this.2.2⟩

/-- the copy resolves (in the heap after the copy) to what the original resolved to when the
    copy started -/
theorem copyItems_resolve (src : Loc → List Nat) (h : Heap) (its : List (Key × Val)) :
    resolve (copyItems src h its).1.lists (copyItems src h its).2 = resolve src its := by
  induction its generalizing h with
  | nil => rfl
  | cons a rest ih =>
    obtain ⟨k, v⟩ := a
    cases v with
    | atom n =>
      simp only [copyItems, resolve_cons, resolveVal_atom, ih h]
    | listRef l =>
      have he := copyItems_ext src (h.allocList (src l) true) rest
      simp only [copyItems, resolve_cons, resolveVal_listRef, ih (h.allocList (src l) true)]
      rw [he.lists_eq h.next (by simp)]
      simp

/-! ### the deep copy of a dictionary -/

theorem deepCopyDict_ext (h : Heap) (s : Loc) : Ext h (deepCopyDict h s).1 :=
  (copyItems_ext h.lists h (h.dicts s)).trans (ext_allocDict _ _ _)

theorem deepCopyDict_loc (h : Heap) (s : Loc) :
    h.next ≤ (deepCopyDict h s).2 ∧ (deepCopyDict h s).2 < (deepCopyDict h s).1.next ∧
      (deepCopyDict h s).1.priv (deepCopyDict h s).2 = true := by
  refine ⟨(copyItems_ext h.lists h (h.dicts s)).next_le, ?_, ?_⟩ <;> simp [deepCopyDict]

theorem deepCopyDict_dicts (h : Heap) (s : Loc) :
    (deepCopyDict h s).1.dicts (deepCopyDict h s).2 = (copyItems h.lists h (h.dicts s)).2 := by
  simp [deepCopyDict]

theorem deepCopyDict_refs (h : Heap) (s : Loc) (k : Key) (l : Loc)
    (hm : (k, Val.listRef l) ∈ (deepCopyDict h s).1.dicts (deepCopyDict h s).2) :
    (deepCopyDict h s).1.priv l = true := by
  rw [deepCopyDict_dicts] at hm
  have := copyItems_refs h.lists h (h.dicts s) k l hm
  simp only [deepCopyDict, allocDict_priv]
  simp [Nat.ne_of_lt this.2.1, this.2.2]

/-- **the deep copy resolves to the resolved source** -/
theorem deepCopyDict_resolve (h : Heap) (s : Loc) :
    resolve (deepCopyDict h s).1.lists ((deepCopyDict h s).1.dicts (deepCopyDict h s).2) =
      resolve h.lists (h.dicts s) := by
  rw [deepCopyDict_dicts]
  simpa [deepCopyDict] using copyItems_resolve h.lists h (h.dicts s)

/-! ### the frame on private locations -/

/-- nothing private in `h` is touched on the way to `h'` -/
structure Frame (h h' : Heap) : Prop where
  next_le : h.next ≤ h'.next
  priv_keep : ∀ l, h.priv l = true → h'.priv l = true
  dicts_keep : ∀ l, h.priv l = true → h'.dicts l = h.dicts l
  lists_keep : ∀ l, h.priv l = true → h'.lists l = h.lists l
  frozen_prefix : ∃ more, h'.frozen = h.frozen ++ more

theorem Frame.refl (h : Heap) : Frame h h :=
  ⟨Nat.le_refl _, fun _ hl => hl, fun _ _ => rfl, fun _ _ => rfl, ⟨[], by simp⟩⟩

theorem Frame.trans {a b c : Heap} (h1 : Frame a b) (h2 : Frame b c) : Frame a c where
  next_le := Nat.le_trans h1.next_le h2.next_le
  priv_keep l hl := h2.priv_keep l (h1.priv_keep l hl)
  dicts_keep l hl := by rw [h2.dicts_keep l (h1.priv_keep l hl), h1.dicts_keep l hl]
  lists_keep l hl := by rw [h2.lists_keep l (h1.priv_keep l hl), h1.lists_keep l hl]
  frozen_prefix := by
    obtain ⟨m1, e1⟩ := h1.frozen_prefix
    obtain ⟨m2, e2⟩ := h2.frozen_prefix
    exact ⟨m1 ++ m2, by rw [e2, e1, List.append_assoc]⟩

theorem Ext.frame {h h' : Heap} (he : Ext h h') (hp : PrivLt h) : Frame h h' where
  next_le := he.next_le
  priv_keep l hl := by rw [he.priv_eq l (hp l hl)]; exact hl
  dicts_keep l hl := he.dicts_eq l (hp l hl)
  lists_keep l hl := he.lists_eq l (hp l hl)
  frozen_prefix := ⟨[], by simp [he.frozen_eq]⟩

theorem frame_setDict (h : Heap) (d : Loc) (its : List (Key × Val)) (hd : h.priv d = false) :
    Frame h (h.setDict d its) where
  next_le := Nat.le_refl _
  priv_keep l hl := hl
  dicts_keep l hl := by
    have : l ≠ d := fun e => by subst e; simp [hl] at hd
    simp [this]
  lists_keep l hl := rfl
  frozen_prefix := ⟨[], by simp⟩

theorem frame_setList (h : Heap) (d : Loc) (xs : List Nat) (hd : h.priv d = false) :
    Frame h (h.setList d xs) where
  next_le := Nat.le_refl _
  priv_keep l hl := hl
  dicts_keep l hl := rfl
  lists_keep l hl := by
    have : l ≠ d := fun e => by subst e; simp [hl] at hd
    simp [this]
  frozen_prefix := ⟨[], by simp⟩

theorem frame_record (h : Heap) (d : Loc) : Frame h (h.record d) :=
  ⟨Nat.le_refl _, fun _ hl => hl, fun _ _ => rfl, fun _ _ => rfl, ⟨[d], rfl⟩⟩

/-! ### the invariant -/

/-- private locations are allocated; the `_data` of every frozen object is private, and so is
    every list it refers to -/
structure Inv (h : Heap) : Prop where
  priv_lt : PrivLt h
  frozen_priv : ∀ d ∈ h.frozen, h.priv d = true
  frozen_refs : ∀ d ∈ h.frozen, ∀ k l, (k, Val.listRef l) ∈ h.dicts d → h.priv l = true

theorem inv_init_heap : Inv init :=
  ⟨fun l hl => by simp [init] at hl, fun d hd => by simp [init] at hd, fun d hd => by simp [init] at hd⟩

/-- the invariant survives any frame-respecting transition that records nothing -/
theorem Inv.of_frame {h h' : Heap} (hi : Inv h) (hf : Frame h h') (hp : PrivLt h')
    (hfz : h'.frozen = h.frozen) : Inv h' where
  priv_lt := hp
  frozen_priv d hd := hf.priv_keep d (hi.frozen_priv d (hfz ▸ hd))
  frozen_refs d hd k l hm := by
    have hd' : d ∈ h.frozen := hfz ▸ hd
    rw [hf.dicts_keep d (hi.frozen_priv d hd')] at hm
    exact hf.priv_keep l (hi.frozen_refs d hd' k l hm)

/-- recording a private dictionary all of whose references are private -/
theorem Inv.record {h : Heap} (hi : Inv h) (d : Loc) (hd : h.priv d = true)
    (hr : ∀ k l, (k, Val.listRef l) ∈ h.dicts d → h.priv l = true) : Inv (h.record d) where
  priv_lt := hi.priv_lt
  frozen_priv x hx := by
    simp only [record_frozen, List.mem_append, List.mem_singleton] at hx
    rcases hx with hx | hx
    · exact hi.frozen_priv x hx
    · subst hx; exact hd
  frozen_refs x hx k l hm := by
    simp only [record_frozen, List.mem_append, List.mem_singleton] at hx
    rcases hx with hx | hx
    · exact hi.frozen_refs x hx k l hm
    · subst hx; exact hr k l hm

theorem Inv.of_ext {h h' : Heap} (hi : Inv h) (he : Ext h h') : Inv h' :=
  hi.of_frame (he.frame hi.priv_lt) (he.privLt hi.priv_lt) he.frozen_eq

/-- a frame keeps the view of every frozen object that existed -/
theorem view_of_frame {h h' : Heap} (hi : Inv h) (hf : Frame h h') (i : Nat)
    (hlt : i < h.frozen.length) : view h' i = view h i := by
  obtain ⟨more, hm⟩ := hf.frozen_prefix
  unfold view
  rw [hm, List.getElem?_append_left hlt, List.getElem?_eq_getElem hlt]
  simp only [Option.map_some, Option.some.injEq]
  have hd : h.frozen[i] ∈ h.frozen := List.getElem_mem hlt
  rw [hf.dicts_keep _ (hi.frozen_priv _ hd)]
  unfold resolve
  apply List.map_congr_left
  intro kv hkv
  obtain ⟨k, v⟩ := kv
  cases v with
  | atom n => rfl
  | listRef l =>
    simp only [resolveVal, Prod.mk.injEq, RVal.list.injEq, true_and]
    exact hf.lists_keep l (hi.frozen_refs _ hd k l hkv)

/-- the object just recorded reads the dictionary it was given -/
theorem view_record_new (h : Heap) (d : Loc) (n : Nat) (hn : n = h.frozen.length) :
    view (h.record d) n = some (resolve h.lists (h.dicts d)) := by
  subst hn
  simp [view]

theorem view_eq_some {h : Heap} {i : Nat} {v : List (Key × RVal)} (hv : view h i = some v) :
    ∃ d, h.frozen[i]? = some d ∧ v = resolve h.lists (h.dicts d) := by
  unfold view at hv
  cases hd : h.frozen[i]? with
  | none => simp [hd] at hv
  | some d => exact ⟨d, rfl, by simpa [hd] using hv.symm⟩

theorem view_lt {h : Heap} {i : Nat} {v : List (Key × RVal)} (hv : view h i = some v) :
    i < h.frozen.length := by
  obtain ⟨d, hd, _⟩ := view_eq_some hv
  exact (List.getElem?_eq_some_iff.mp hd).1

theorem lookup_resolve (ls : Loc → List Nat) (k : Key) (its : List (Key × Val)) :
    (lookup k its).map (resolveVal ls) = lookup k (resolve ls its) := by
  unfold resolve; rw [lookup_map]

theorem delItem_resolve (ls : Loc → List Nat) (k : Key) (its : List (Key × Val)) :
    resolve ls (delItem k its) = delItem k (resolve ls its) := by
  unfold resolve; rw [delItem_map]

/-! ### every operation (deep discipline) respects the frame and keeps the invariant -/

theorem callerDict_priv {h : Heap} {d : Loc} (hc : h.callerDict d = true) : h.priv d = false := by
  simp [Heap.callerDict] at hc; exact hc.1.2

theorem callerList_priv {h : Heap} {d : Loc} (hc : h.callerList d = true) : h.priv d = false := by
  simp [Heap.callerList] at hc; exact hc.1.2

theorem step_ok (h : Heap) (hi : Inv h) (op : Op) :
    Frame h (step h op).1 ∧ Inv (step h op).1 := by
  cases op with
  | newDict items =>
    have he := ext_allocDict h (ofPairs items) false
    exact ⟨he.frame hi.priv_lt, hi.of_ext he⟩
  | newList xs =>
    have he := ext_allocList h xs false
    exact ⟨he.frame hi.priv_lt, hi.of_ext he⟩
  | dictSet d k v =>
    simp only [step, stepD]
    split
    · rename_i hc
      have hf := frame_setDict h d (setItem k v (h.dicts d)) (callerDict_priv hc)
      exact ⟨hf, hi.of_frame hf hi.priv_lt rfl⟩
    · exact ⟨Frame.refl h, hi⟩
  | dictDel d k =>
    simp only [step, stepD]
    split
    · rename_i hc
      have hf := frame_setDict h d (delItem k (h.dicts d)) (callerDict_priv hc)
      exact ⟨hf, hi.of_frame hf hi.priv_lt rfl⟩
    · exact ⟨Frame.refl h, hi⟩
  | dictClear d =>
    simp only [step, stepD]
    split
    · rename_i hc
      have hf := frame_setDict h d [] (callerDict_priv hc)
      exact ⟨hf, hi.of_frame hf hi.priv_lt rfl⟩
    · exact ⟨Frame.refl h, hi⟩
  | listAppend l n =>
    simp only [step, stepD]
    split
    · rename_i hc
      have hf := frame_setList h l (h.lists l ++ [n]) (callerList_priv hc)
      exact ⟨hf, hi.of_frame hf hi.priv_lt rfl⟩
    · exact ⟨Frame.refl h, hi⟩
  | listSetAll l xs =>
    simp only [step, stepD]
    split
    · rename_i hc
      have hf := frame_setList h l xs (callerList_priv hc)
      exact ⟨hf, hi.of_frame hf hi.priv_lt rfl⟩
    · exact ⟨Frame.refl h, hi⟩
  | fromDict src =>
    simp only [step, stepD]
    split
    · simp only [copyDict]
      have he := deepCopyDict_ext h src
      have hi1 := hi.of_ext he
      have hl := deepCopyDict_loc h src
      exact ⟨(he.frame hi.priv_lt).trans (frame_record _ _),
        hi1.record _ hl.2.2 (deepCopyDict_refs h src)⟩
    · exact ⟨Frame.refl h, hi⟩
  | fromFrozen i =>
    simp only [step, stepD]
    split
    · rename_i d hd
      have hm : d ∈ h.frozen := List.mem_of_getElem? hd
      exact ⟨frame_record h d, hi.record d (hi.frozen_priv d hm) (hi.frozen_refs d hm)⟩
    · exact ⟨Frame.refl h, hi⟩
  | fromPairs ps =>
    simp only [step, stepD, copyDict]
    have he := (ext_allocDict h (ofPairs ps) true).trans (deepCopyDict_ext _ h.next)
    have hi1 := hi.of_ext he
    have hl := deepCopyDict_loc (h.allocDict (ofPairs ps) true) h.next
    exact ⟨(he.frame hi.priv_lt).trans (frame_record _ _),
      hi1.record _ hl.2.2 (deepCopyDict_refs _ _)⟩
  | copyPop i k =>
    simp only [step, stepD]
    split
    · exact ⟨Frame.refl h, hi⟩
    · rename_i d hd
      simp only [copyDict]
      have hl1 := deepCopyDict_loc h d
      have he2 := (deepCopyDict_ext h d).setDict_new _ hl1.1
        (delItem k ((deepCopyDict h d).1.dicts (deepCopyDict h d).2))
      have he := he2.trans (deepCopyDict_ext _ (deepCopyDict h d).2)
      have hi1 := hi.of_ext he
      have hl := deepCopyDict_loc
        ((deepCopyDict h d).1.setDict (deepCopyDict h d).2
          (delItem k ((deepCopyDict h d).1.dicts (deepCopyDict h d).2))) (deepCopyDict h d).2
      exact ⟨(he.frame hi.priv_lt).trans (frame_record _ _),
        hi1.record _ hl.2.2 (deepCopyDict_refs _ _)⟩
  | lookup i k =>
    simp only [step, stepD]
    split <;> exact ⟨Frame.refl h, hi⟩

theorem run_ok (h : Heap) (hi : Inv h) (ops : List Op) : Frame h (run h ops) ∧ Inv (run h ops) := by
  induction ops generalizing h with
  | nil => exact ⟨Frame.refl h, hi⟩
  | cons op ops ih =>
    have h1 := step_ok h hi op
    have h2 := ih (step h op).1 h1.2
    exact ⟨h1.1.trans h2.1, h2.2⟩

/-! ### dictionaries have distinct keys (under every discipline) -/

theorem keys_delItem_sublist {α : Type} (k : Key) (l : List (Key × α)) :
    ((delItem k l).map (·.1)).Sublist (l.map (·.1)) := by
  induction l with
  | nil => simp [delItem]
  | cons a r ih =>
    obtain ⟨k', v⟩ := a
    by_cases hk : k' = k
    · simp [delItem, hk]
    · simpa [delItem, hk] using ih

theorem nodup_delItem {α : Type} (k : Key) (l : List (Key × α)) (hnd : (l.map (·.1)).Nodup) :
    ((delItem k l).map (·.1)).Nodup :=
  (keys_delItem_sublist k l).nodup hnd

/-- every dictionary of the heap has distinct keys -/
def KeysNodup (h : Heap) : Prop := ∀ l, ((h.dicts l).map (·.1)).Nodup

theorem keysNodup_init : KeysNodup init := fun _ => by simp [init]

theorem keys_resolve (ls : Loc → List Nat) (its : List (Key × Val)) :
    (resolve ls its).map (·.1) = its.map (·.1) := by
  simp [resolve]

theorem copyItems_keys (src : Loc → List Nat) (h : Heap) (its : List (Key × Val)) :
    (copyItems src h its).2.map (·.1) = its.map (·.1) := by
  rw [← keys_resolve (copyItems src h its).1.lists, copyItems_resolve, keys_resolve]

theorem copyItems_dicts (src : Loc → List Nat) (h : Heap) (its : List (Key × Val)) :
    (copyItems src h its).1.dicts = h.dicts := by
  induction its generalizing h with
  | nil => rfl
  | cons a rest ih =>
    obtain ⟨k, v⟩ := a
    cases v with
    | atom n => exact ih h
    | listRef l => simp only [copyItems]; rw [ih]; rfl

theorem KeysNodup.setDict {h : Heap} (hk : KeysNodup h) (d : Loc) (its : List (Key × Val))
    (hn : (its.map (·.1)).Nodup) : KeysNodup (h.setDict d its) := by
  intro l
  by_cases hl : l = d <;> simp [hl, hn, hk _]

theorem KeysNodup.allocDict {h : Heap} (hk : KeysNodup h) (its : List (Key × Val)) (p : Bool)
    (hn : (its.map (·.1)).Nodup) : KeysNodup (h.allocDict its p) := by
  intro l
  by_cases hl : l = h.next <;> simp [hl, hn, hk _]

theorem keysNodup_copyDict {h : Heap} (hk : KeysNodup h) (disc : Discipline) (s : Loc) :
    KeysNodup (copyDict disc h s).1 := by
  cases disc with
  | deep =>
    simp only [copyDict, deepCopyDict]
    apply KeysNodup.allocDict
    · intro l; rw [copyItems_dicts]; exact hk l
    · rw [copyItems_keys]; exact hk s
  | shallow => exact hk.allocDict _ _ (hk s)
  | alias => exact hk

theorem keysNodup_stepD (disc : Discipline) (h : Heap) (hk : KeysNodup h) (op : Op) :
    KeysNodup (stepD disc h op).1 := by
  cases op with
  | newDict items => exact hk.allocDict _ _ (ofPairs_nodup items)
  | newList xs => exact hk
  | dictSet d k v =>
    simp only [stepD]; split
    · exact hk.setDict _ _ (nodup_setItem _ _ _ (hk d))
    · exact hk
  | dictDel d k =>
    simp only [stepD]; split
    · exact hk.setDict _ _ (nodup_delItem _ _ (hk d))
    · exact hk
  | dictClear d =>
    simp only [stepD]; split
    · exact hk.setDict _ _ (by simp)
    · exact hk
  | listAppend l n => simp only [stepD]; split <;> exact hk
  | listSetAll l xs => simp only [stepD]; split <;> exact hk
  | fromDict src =>
    simp only [stepD]; split
    · exact keysNodup_copyDict hk disc src
    · exact hk
  | fromFrozen i => simp only [stepD]; split <;> exact hk
  | fromPairs ps => exact keysNodup_copyDict (hk.allocDict _ true (ofPairs_nodup ps)) disc h.next
  | copyPop i k =>
    simp only [stepD]; split
    · exact hk
    · rename_i d _
      have h1 := keysNodup_copyDict hk disc d
      exact keysNodup_copyDict (h1.setDict _ _ (nodup_delItem k _ (h1 _))) disc _
  | lookup i k => simp only [stepD]; split <;> exact hk

theorem keysNodup_runD (disc : Discipline) (h : Heap) (hk : KeysNodup h) (ops : List Op) :
    KeysNodup (runD disc h ops) := by
  induction ops generalizing h with
  | nil => exact hk
  | cons op ops ih => exact ih _ (keysNodup_stepD disc h hk op)

/-- the view of a frozen object has distinct keys -/
theorem view_keys_nodup {h : Heap} (hk : KeysNodup h) {i : Nat} {v : List (Key × RVal)}
    (hv : view h i = some v) : (v.map (·.1)).Nodup := by
  obtain ⟨d, _, rfl⟩ := view_eq_some hv
  rw [keys_resolve]; exact hk d

end Swh.Frozen
