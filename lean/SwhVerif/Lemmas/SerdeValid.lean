import SwhVerif.Lemmas.SerdeLegacy
import SwhVerif.Lemmas.SwhidClasses
/-!
  C12: every object that `from_dict` builds satisfies the `Valid…` predicate of its class
  (so `Valid…` is exactly "what the constructor accepts": the round-trip lemmas show the other
  inclusion), hence `to_dict ∘ from_dict` is stable on every accepted dictionary, legacy
  encodings included.
-/
set_option linter.unusedSimpArgs false
namespace Swh.Serde
open Swh

/-- the computed identifiers are never empty (they are SHA-1 digests) -/
structure IdFns.NonEmpty (ids : IdFns) : Prop where
  origin : ∀ x, ids.origin x ≠ []
  snapshot : ∀ x, ids.snapshot x ≠ []
  release : ∀ x, ids.release x ≠ []
  revision : ∀ x, ids.revision x ≠ []
  directory : ∀ x, ids.directory x ≠ []
  rawExtrinsicMetadata : ∀ x, ids.rawExtrinsicMetadata x ≠ []
  extID : ∀ x, ids.extID x ≠ []

/-- postcondition of a bind: what holds of every successful result -/
theorem bind_post {α β} {P : β → Prop} (x : Except ErrKind α) (f : α → Except ErrKind β)
    (h : ∀ a, x = .ok a → ∀ b, f a = .ok b → P b) : ∀ b, (x >>= f) = .ok b → P b := by
  intro b hb
  cases x with
  | error e => cases hb
  | ok a => exact h a rfl b hb

theorem ok_post {β} {P : β → Prop} (v : β) (h : P v) :
    ∀ b, (Except.ok v : Except ErrKind β) = .ok b → P b := by
  intro b hb; cases hb; exact h

theorem error_post {β} {P : β → Prop} (e : ErrKind) :
    ∀ b, (Except.error e : Except ErrKind β) = .ok b → P b := by
  intro b hb; cases hb

macro "wp" : tactic =>
  `(tactic| repeat (first
      | (refine bind_post _ _ (fun _ _ => ?_))
      | (refine ok_post _ ?_)
      | (refine error_post _)
      | (dsimp only)))

@[simp] theorem guardE_ok_iff {c : Bool} {e : ErrKind} {u : Unit} :
    guardE c e = .ok u ↔ c = true := by
  cases c <;> simp [guardE]

theorem decEnum_ok_iff {t : List PStr} {v : Val} {s : PStr} :
    decEnum t v = .ok s ↔ v = .str s ∧ s ∈ t := by
  cases v with
  | str x =>
    by_cases hx : x ∈ t
    · simp only [decEnum, List.contains_iff_mem, hx, if_true, Except.ok.injEq, Val.str.injEq]
      constructor
      · rintro rfl; exact ⟨rfl, hx⟩
      · rintro ⟨h, _⟩; exact h
    · simp only [decEnum, List.contains_iff_mem, hx, Val.str.injEq]
      constructor
      · intro h; cases h
      · rintro ⟨rfl, h⟩; exact absurd h hx
  | _ => simp [decEnum]

theorem decEnum_mem {t : List PStr} {v : Val} {s : PStr} (h : decEnum t v = .ok s) : s ∈ t :=
  (decEnum_ok_iff.1 h).2

theorem isEmpty_false_ne {α} {l : List α} (h : l.isEmpty = false) : l ≠ [] := by
  cases l with
  | nil => cases h
  | cons _ _ => exact List.cons_ne_nil _ _

theorem id_post (given computed : Bytes) (hc : computed ≠ []) :
    (if given.isEmpty then computed else given) ≠ [] := by
  cases hg : given.isEmpty with
  | true => simpa using hc
  | false => simpa using isEmpty_false_ne hg

theorem mapE_forall {α β} {P : β → Prop} (f : α → Except ErrKind β) (l : List α) (r : List β)
    (h : mapE f l = .ok r) (hf : ∀ a ∈ l, ∀ b, f a = .ok b → P b) : ∀ b ∈ r, P b := by
  induction l generalizing r with
  | nil => simp only [mapE, Except.ok.injEq] at h; subst h; simp
  | cons a as ih =>
    simp only [mapE] at h
    cases hfa : f a with
    | error e => simp [hfa] at h
    | ok b =>
      cases hm : mapE f as with
      | error e => simp [hfa, hm] at h
      | ok bs =>
        simp only [hfa, hm, Except.ok.injEq] at h
        subst h
        intro x hx
        simp only [List.mem_cons] at hx
        rcases hx with rfl | hx
        · exact hf a (by simp) _ hfa
        · exact ih bs hm (fun a' ha' => hf a' (by simp [ha'])) x hx

theorem mapE_map_eq {α β γ} (f : α → Except ErrKind β) (g : β → γ) (h' : α → γ) (l : List α)
    (r : List β) (h : mapE f l = .ok r) (hf : ∀ a ∈ l, ∀ b, f a = .ok b → g b = h' a) :
    r.map g = l.map h' := by
  induction l generalizing r with
  | nil => simp only [mapE, Except.ok.injEq] at h; subst h; rfl
  | cons a as ih =>
    simp only [mapE] at h
    cases hfa : f a with
    | error e => simp [hfa] at h
    | ok b =>
      cases hm : mapE f as with
      | error e => simp [hfa, hm] at h
      | ok bs =>
        simp only [hfa, hm, Except.ok.injEq] at h
        subst h
        simp only [List.map, List.cons.injEq]
        exact ⟨hf a (by simp) b hfa, ih bs hm (fun a' ha' => hf a' (by simp [ha']))⟩

/-! ### per class -/

theorem mkTs_valid (a b : Val) : ∀ t, mkTs a b = .ok t → ValidTimestamp t := by
  unfold mkTs
  wp
  simp_all [ValidTimestamp]

theorem valid_Person (d : Val) : ∀ o, fromDictPerson d = .ok o → ValidPerson o :=
  fun _ _ => trivial

theorem valid_Timestamp (d : Val) : ∀ o, fromDictTimestamp d = .ok o → ValidTimestamp o := by
  unfold fromDictTimestamp
  wp
  simp_all [ValidTimestamp]

theorem valid_TimestampWithTimezone (d : Val) :
    ∀ o, fromDictTimestampWithTimezone d = .ok o → ValidTimestampWithTimezone o := by
  unfold fromDictTimestampWithTimezone
  split
  · refine bind_post _ _ (fun _ _ => ?_)
    refine bind_post _ _ (fun t ht => ?_)
    have hv : ValidTimestamp t := by
      revert ht
      split
      · exact mkTs_valid _ _ _
      · exact mkTs_valid _ _ _
      · exact mkTs_valid _ _ _
      · intro h; cases h
    split <;> wp <;> exact hv
  · refine bind_post _ _ (fun t ht => ?_)
    wp
    exact mkTs_valid _ _ t ht
  · refine bind_post _ _ (fun t ht => ?_)
    wp
    exact mkTs_valid _ _ t ht
  · refine bind_post _ _ (fun t ht => ?_)
    wp
    exact mkTs_valid _ _ t ht
  · intro o h; cases h

theorem mkOrigin_valid (ids : IdFns) (hn : ids.NonEmpty) (u i : Val) :
    ∀ o, mkOrigin ids u i = .ok o → ValidOrigin o := by
  unfold mkOrigin
  wp
  exact ⟨by simpa using ‹guardE (urlOk _) _ = .ok _›, id_post _ _ (hn.origin _)⟩

theorem valid_Origin (ids : IdFns) (hn : ids.NonEmpty) (d : Val) :
    ∀ o, fromDictOrigin ids d = .ok o → ValidOrigin o := by
  unfold fromDictOrigin
  refine bind_post _ _ (fun _ _ => ?_)
  refine bind_post _ _ (fun _ _ => ?_)
  refine bind_post _ _ (fun _ _ => ?_)
  exact mkOrigin_valid ids hn _ _

theorem valid_OriginVisit (d : Val) : ∀ o, fromDictOriginVisit d = .ok o → ValidOriginVisit o :=
  fun _ _ => trivial

theorem valid_OriginVisitStatus (d : Val) :
    ∀ o, fromDictOriginVisitStatus d = .ok o → ValidOriginVisitStatus o := by
  unfold fromDictOriginVisitStatus
  wp
  exact decEnum_mem ‹decIn visitStatuses _ = .ok _›

theorem valid_SnapshotBranch (d : Val) :
    ∀ o, fromDictSnapshotBranch d = .ok o → ValidSnapshotBranch o := by
  unfold fromDictSnapshotBranch
  wp
  refine ⟨decEnum_mem ‹decEnum snapshotTargetTypes _ = .ok _›, ?_⟩
  intro hne
  have hg := ‹guardE (_ == kAlias || _) _ = .ok _›
  simp only [guardE_ok_iff, Bool.or_eq_true, beq_iff_eq] at hg
  rcases hg with h | h
  · exact absurd h hne
  · exact h

theorem decBranch_valid (v : Val) :
    ∀ b, decBranch v = .ok b → ∀ x, b = some x → ValidSnapshotBranch x := by
  unfold decBranch
  split
  · intro b hb x hx
    cases hfd : fromDictSnapshotBranch v with
    | error e => simp [hfd, Except.map] at hb
    | ok y =>
      simp only [hfd, Except.map, Except.ok.injEq] at hb
      subst hb; cases hx
      exact valid_SnapshotBranch v _ hfd
  · intro b hb x hx; cases hb; cases hx

theorem valid_Snapshot (ids : IdFns) (hn : ids.NonEmpty) (d : Val) :
    ∀ o, fromDictSnapshot ids d = .ok o → ValidSnapshot o := by
  unfold fromDictSnapshot
  refine bind_post _ _ (fun _ _ => ?_)
  refine bind_post _ _ (fun _ _ => ?_)
  refine bind_post _ _ (fun items _ => ?_)
  refine bind_post _ _ (fun decoded hdec => ?_)
  refine bind_post _ _ (fun _ _ => ?_)
  refine bind_post _ _ (fun branches hbr => ?_)
  refine bind_post _ _ (fun id _ => ?_)
  have h1 : ∀ p ∈ decoded, ∀ b, p.2 = some b → ValidSnapshotBranch b := by
    refine mapE_forall (P := fun p => ∀ b, p.2 = some b → ValidSnapshotBranch b) _ items decoded hdec ?_
    intro a _ b hb x hx
    cases hdb : decBranch a.2 with
    | error e => simp [hdb, Except.map] at hb
    | ok y =>
      simp only [hdb, Except.map, Except.ok.injEq] at hb
      subst hb
      exact decBranch_valid a.2 y hdb x hx
  have h2 : ∀ p ∈ branches, ∀ b, p.2 = some b → ValidSnapshotBranch b := by
    refine mapE_forall (P := fun p => ∀ b, p.2 = some b → ValidSnapshotBranch b) _ decoded branches hbr ?_
    intro a ha b hb x hx
    cases hdb : decBytes a.1 with
    | error e => simp [hdb, Except.map] at hb
    | ok y =>
      simp only [hdb, Except.map, Except.ok.injEq] at hb
      subst hb
      exact h1 a ha x hx
  dsimp only
  refine ok_post _ ?_
  split
  · exact ⟨h2, hn.snapshot _⟩
  · rename_i he
    exact ⟨h2, isEmpty_false_ne (by simpa using he)⟩

theorem decIfTruthy_post {α} {P : α → Prop} (f : Val → Except ErrKind α) (v : Val)
    (hf : ∀ a, f v = .ok a → P a) : ∀ x, decIfTruthy f v = .ok x → optValid P x := by
  unfold decIfTruthy
  split
  · intro x hx
    cases hfv : f v with
    | error e => simp [hfv, Except.map] at hx
    | ok a =>
      simp only [hfv, Except.map, Except.ok.injEq] at hx
      subst hx
      exact hf a hfv
  · intro x hx; cases hx; trivial

theorem decIfTruthy_none {α} (f : Val → Except ErrKind α) (v : Val) (x : Option α)
    (h : decIfTruthy f v = .ok x) (hv : isNoneVal v = true) : x = none := by
  cases v <;> simp [isNoneVal] at hv
  simpa [decIfTruthy, truthy] using h.symm

theorem check_author_post {α β} (g : Val → Except ErrKind β)
    (dv : Val) (a : Option α) (dt : Option β) (u : Unit)
    (hd : decIfTruthy g dv = .ok dt)
    (hchk : guardE (!(a.isNone && !isNoneVal dv)) .valueError = .ok u) : a = none → dt = none := by
  intro han
  subst han
  have : isNoneVal dv = true := by simpa using hchk
  exact decIfTruthy_none g dv dt hd this

theorem valid_Release (ids : IdFns) (hn : ids.NonEmpty) (d : Val) :
    ∀ o, fromDictRelease ids d = .ok o → ValidRelease o := by
  unfold fromDictRelease
  wp
  have hdate := ‹decIfTruthy fromDictTimestampWithTimezone _ = .ok _›
  have hd := decIfTruthy_post _ _ (valid_TimestampWithTimezone _) _ hdate
  have hc := check_author_post _ _ _ _ _ hdate ‹guardE (!(_ && _)) _ = .ok _›
  have htt := decEnum_mem ‹decEnum releaseTargetTypes _ = .ok _›
  split
  · exact ⟨htt, hc, hd, hn.release _⟩
  · rename_i he
    exact ⟨htt, hc, hd, isEmpty_false_ne (by simpa using he)⟩

theorem revisionPostInit_post (ids : IdFns) (hn : ids.NonEmpty) (r : Revision) :
    ∀ o, revisionPostInit ids r = .ok o →
      o.id ≠ [] ∧
      (o.extra_headers = [] → optValid (fun m => mlookup kExtraHeaders m = none) o.metadata) ∧
      o.type = r.type ∧ o.author = r.author ∧ o.committer = r.committer ∧ o.date = r.date ∧
      o.committer_date = r.committer_date := by
  intro o h
  unfold revisionPostInit at h
  have hid : (if r.id.isEmpty then ids.revision r else r.id) ≠ [] := id_post _ _ (hn.revision r)
  have hid' : (if r.id.isEmpty = true then { r with id := ids.revision r } else r).id ≠ [] := by
    split
    · exact hn.revision r
    · rename_i he; exact isEmpty_false_ne (by simpa using he)
  generalize hr' : (if r.id.isEmpty = true then { r with id := ids.revision r } else r) = r' at h hid'
  have hsame : r'.type = r.type ∧ r'.author = r.author ∧ r'.committer = r.committer ∧
      r'.date = r.date ∧ r'.committer_date = r.committer_date ∧ r'.metadata = r.metadata ∧
      r'.extra_headers = r.extra_headers := by
    subst hr'; split <;> simp
  obtain ⟨s1, s2, s3, s4, s5, s6, s7⟩ := hsame
  dsimp only at h
  cases hm : r'.metadata with
  | none =>
    simp only [hm] at h
    cases h
    exact ⟨hid', fun _ => by rw [hm]; trivial, s1, s2, s3, s4, s5⟩
  | some m =>
    simp only [hm] at h
    by_cases hme : m.isEmpty = true
    · simp only [hme, if_true] at h
      cases h
      refine ⟨hid', fun _ => ?_, s1, s2, s3, s4, s5⟩
      rw [hm]
      have : m = [] := by simpa using hme
      subst this; rfl
    · simp only [hme, Bool.false_eq_true, if_false] at h
      by_cases hx : r'.extra_headers.isEmpty = true
      · simp only [hx, if_true] at h
        cases hl : mlookup kExtraHeaders m with
        | none =>
          simp only [hl] at h
          cases h
          exact ⟨hid', fun _ => by rw [hm]; exact hl, s1, s2, s3, s4, s5⟩
        | some hv =>
          simp only [hl] at h
          cases ht : tuplify hv with
          | error e => simp [ht, bind, Except.bind] at h
          | ok pairs =>
            cases hd : decHeaders pairs with
            | error e => simp [ht, hd, bind, Except.bind] at h
            | ok hs =>
              simp only [ht, hd, bind, Except.bind, Except.ok.injEq] at h
              subst h
              exact ⟨hid', fun _ => mlookup_filter_self _ _, s1, s2, s3, s4, s5⟩
      · simp only [hx, Bool.false_eq_true, if_false] at h
        cases h
        refine ⟨hid', fun he => ?_, s1, s2, s3, s4, s5⟩
        rw [he] at hx
        exact absurd rfl hx

theorem valid_Revision (ids : IdFns) (hn : ids.NonEmpty) (d : Val) :
    ∀ o, fromDictRevision ids d = .ok o → ValidRevision o := by
  unfold fromDictRevision
  refine bind_post _ _ (fun kv _ => ?_)
  refine bind_post _ _ (fun dateV _ => ?_)
  refine bind_post _ _ (fun date hdate => ?_)
  refine bind_post _ _ (fun cdateV _ => ?_)
  refine bind_post _ _ (fun cdate hcdate => ?_)
  refine bind_post _ _ (fun authorV _ => ?_)
  refine bind_post _ _ (fun author hauthor => ?_)
  refine bind_post _ _ (fun committerV _ => ?_)
  refine bind_post _ _ (fun committer hcommitter => ?_)
  refine bind_post _ _ (fun tyV _ => ?_)
  refine bind_post _ _ (fun ty hty => ?_)
  wp
  intro o ho
  obtain ⟨p1, p2, p3, p4, p5, p6, p7⟩ := revisionPostInit_post ids hn _ o ho
  dsimp only at p3 p4 p5 p6 p7
  have hd := decIfTruthy_post _ _ (valid_TimestampWithTimezone _) _ hdate
  have hcd := decIfTruthy_post _ _ (valid_TimestampWithTimezone _) _ hcdate
  have hc1 := check_author_post _ _ _ _ _ hdate
    ‹guardE (!(author.isNone && !isNoneVal dateV)) _ = .ok _›
  have hc2 := check_author_post _ _ _ _ _ hcdate
    ‹guardE (!(committer.isNone && !isNoneVal cdateV)) _ = .ok _›
  refine ⟨?_, ?_, ?_, ?_, ?_, p1, p2⟩
  · rw [p3]; exact decEnum_mem hty
  · rw [p4, p6]; exact hc1
  · rw [p5, p7]; exact hc2
  · rw [p6]; exact hd
  · rw [p7]; exact hcd

theorem valid_DirectoryEntry (d : Val) :
    ∀ o, fromDictDirectoryEntry d = .ok o → ValidDirectoryEntry o := by
  unfold fromDictDirectoryEntry
  wp
  refine ⟨?_, decEnum_mem ‹decIn dirEntryTypes _ = .ok _›⟩
  simpa using ‹guardE (!List.contains _ bSlash) _ = .ok _›

theorem valid_Directory (ids : IdFns) (hn : ids.NonEmpty) (d : Val) :
    ∀ o, fromDictDirectory ids d = .ok o → ValidDirectory o := by
  unfold fromDictDirectory
  refine bind_post _ _ (fun _ _ => ?_)
  refine bind_post _ _ (fun _ _ => ?_)
  refine bind_post _ _ (fun items _ => ?_)
  refine bind_post _ _ (fun entries hent => ?_)
  wp
  have h1 : ∀ e ∈ entries, ValidDirectoryEntry e :=
    mapE_forall (P := ValidDirectoryEntry) _ items entries hent
      (fun a _ b hb => valid_DirectoryEntry a b hb)
  have h2 : namesDistinct (entries.map (·.name)) = true := by
    simpa using ‹guardE (namesDistinct _) _ = .ok _›
  split
  · exact ⟨h1, h2, hn.directory _⟩
  · rename_i he
    exact ⟨h1, h2, isEmpty_false_ne (by simpa using he)⟩

theorem decGetData_none (v : Val) (g : Option Bytes) (h : decGetData v = .ok g) : g = none := by
  cases v <;> simp [decGetData] at h
  exact h.symm

theorem valid_Content (d : Val) : ∀ o, fromDictContent d = .ok o → ValidContent o := by
  unfold fromDictContent
  wp
  refine ⟨?_, decEnum_mem ‹decIn contentStatuses _ = .ok _›, decGetData_none _ _ ‹decGetData _ = .ok _›⟩
  simpa using ‹guardE (decide ((0 : Int) ≤ _)) _ = .ok _›

theorem valid_SkippedContent (d : Val) :
    ∀ o, fromDictSkippedContent d = .ok o → ValidSkippedContent o := by
  unfold fromDictSkippedContent
  wp
  refine ⟨?_, decEnum_mem ‹decIn skippedStatuses _ = .ok _›⟩
  simpa using ‹guardE (decide ((-1 : Int) ≤ _)) _ = .ok _›

theorem valid_MetadataAuthority (d : Val) :
    ∀ o, fromDictMetadataAuthority d = .ok o → ValidMetadataAuthority o := by
  unfold fromDictMetadataAuthority
  wp
  exact decEnum_mem ‹decEnum authorityTypes _ = .ok _›

theorem valid_MetadataFetcher (d : Val) :
    ∀ o, fromDictMetadataFetcher d = .ok o → ValidMetadataFetcher o := fun _ _ => trivial

theorem decSwhid_wf (tags : List Str) (htags : ∀ t ∈ tags, t ∈ reTags) (v : Val) :
    ∀ b, decSwhid tags v = .ok b → WfSwhid tags b := by
  intro b h
  unfold decSwhid at h
  split at h
  · split at h
    · have := (baseFromString_iff tags htags _ b).1 h
      exact ⟨this.1, this.2.1⟩
    · cases h
  · cases h

theorem coreTags_re : ∀ t ∈ coreTags, t ∈ reTags := by decide
theorem extTags_re : ∀ t ∈ extTags, t ∈ reTags := by decide

theorem convDiscoveryDate_norm (v : Val) :
    ∀ d, convDiscoveryDate v = .ok d → normalizeDiscoveryDate d = d := by
  intro d h
  cases v <;> simp [convDiscoveryDate] at h
  subst h
  simp only [normalizeDiscoveryDate, DT.mk.injEq, and_true]
  omega

theorem valid_remCore (ids : IdFns) (hn : ids.NonEmpty) (kv : KV) :
    ∀ o, remCore ids kv = .ok o → ValidRawExtrinsicMetadata o := by
  unfold remCore
  refine bind_post _ _ (fun _ _ => ?_)
  refine bind_post _ _ (fun target htarget => ?_)
  refine bind_post _ _ (fun _ _ => ?_)
  refine bind_post _ _ (fun authority hauth => ?_)
  refine bind_post _ _ (fun _ _ => ?_)
  refine bind_post _ _ (fun _ _ => ?_)
  refine bind_post _ _ (fun snapshot hsnp => ?_)
  refine bind_post _ _ (fun release hrel => ?_)
  refine bind_post _ _ (fun revision hrev => ?_)
  refine bind_post _ _ (fun directory hdir => ?_)
  refine bind_post _ _ (fun _ _ => ?_)
  refine bind_post _ _ (fun _ _ => ?_)
  refine bind_post _ _ (fun _ _ => ?_)
  refine bind_post _ _ (fun _ _ => ?_)
  refine bind_post _ _ (fun dd hdd => ?_)
  wp
  have w := decSwhid_wf extTags extTags_re _ _ htarget
  have wsnp := decIfTruthy_post _ _ (decSwhid_wf coreTags coreTags_re _) _ hsnp
  have wrel := decIfTruthy_post _ _ (decSwhid_wf coreTags coreTags_re _) _ hrel
  have wrev := decIfTruthy_post _ _ (decSwhid_wf coreTags coreTags_re _) _ hrev
  have wdir := decIfTruthy_post _ _ (decSwhid_wf coreTags coreTags_re _) _ hdir
  have g1 := guardE_ok_iff.1 ‹guardE (originCtxOk _ _) _ = .ok _›
  have g2 := guardE_ok_iff.1 ‹guardE (visitCtxOk _ _ _) _ = .ok _›
  have g3 := guardE_ok_iff.1 ‹guardE (swhidCtxOk _ snapshotCtxFor _ _) _ = .ok _›
  have g4 := guardE_ok_iff.1 ‹guardE (swhidCtxOk _ releaseCtxFor _ _) _ = .ok _›
  have g5 := guardE_ok_iff.1 ‹guardE (swhidCtxOk _ revisionCtxFor _ _) _ = .ok _›
  have g6 := guardE_ok_iff.1 ‹guardE (pathCtxOk _ _) _ = .ok _›
  have g7 := guardE_ok_iff.1 ‹guardE (swhidCtxOk _ directoryCtxFor _ _) _ = .ok _›
  have hnorm := convDiscoveryDate_norm _ _ hdd
  have ha := valid_MetadataAuthority _ _ hauth
  split
  · exact ⟨w, hnorm, ha, g1, g2, wsnp, g3, wrel, g4, wrev, g5, g6, wdir, g7,
      hn.rawExtrinsicMetadata _⟩
  · rename_i he
    exact ⟨w, hnorm, ha, g1, g2, wsnp, g3, wrel, g4, wrev, g5, g6, wdir, g7,
      isEmpty_false_ne (by simpa using he)⟩

theorem valid_RawExtrinsicMetadata (ids : IdFns) (hn : ids.NonEmpty) (d : Val) :
    ∀ o, fromDictRawExtrinsicMetadata ids d = .ok o → ValidRawExtrinsicMetadata o := by
  unfold fromDictRawExtrinsicMetadata
  refine bind_post _ _ (fun _ _ => ?_)
  refine bind_post _ _ (fun _ _ => ?_)
  exact valid_remCore ids hn _

theorem valid_ExtID (ids : IdFns) (hn : ids.NonEmpty) (d : Val) :
    ∀ o, fromDictExtID ids d = .ok o → ValidExtID o := by
  unfold fromDictExtID
  refine bind_post _ _ (fun _ _ => ?_)
  refine bind_post _ _ (fun _ _ => ?_)
  refine bind_post _ _ (fun _ _ => ?_)
  refine bind_post _ _ (fun _ _ => ?_)
  refine bind_post _ _ (fun target htarget => ?_)
  refine bind_post _ _ (fun _ _ => ?_)
  refine bind_post _ _ (fun _ _ => ?_)
  refine bind_post _ _ (fun _ _ => ?_)
  refine bind_post _ _ (fun pt _ => ?_)
  refine bind_post _ _ (fun pl _ => ?_)
  refine bind_post _ _ (fun _ h1 => ?_)
  refine bind_post _ _ (fun _ h2 => ?_)
  refine bind_post _ _ (fun id _ => ?_)
  dsimp only
  refine ok_post _ ?_
  have hw := decSwhid_wf coreTags coreTags_re _ _ htarget
  have hp : pt.isSome = pl.isSome := by
    simp only [guardE_ok_iff] at h1 h2
    cases pt <;> cases pl <;> simp_all
  split
  · exact ⟨hw, hp, hn.extID _⟩
  · rename_i he
    exact ⟨hw, hp, isEmpty_false_ne (by simpa using he)⟩

/-! ### stability of `to_dict ∘ from_dict` -/

theorem rt_stable {α} (f : Val → Except ErrKind α) (g : α → Val)
    (hst : ∀ d o, f d = .ok o → f (g o) = .ok o) (d d1 d2 : Val)
    (h : rt f g d = .ok (d1, d2)) : d1 = d2 := by
  unfold rt at h
  cases hf : f d with
  | error e => simp [hf, bind, Except.bind] at h
  | ok o =>
    have := hst d o hf
    simp only [hf, this, bind, Except.bind, Except.ok.injEq, Prod.mk.injEq] at h
    rw [← h.1, ← h.2]

theorem baseContent_stable (d : Val) (o : Content ⊕ SkippedContent)
    (h : fromDictBaseContent d = .ok o) :
    fromDictBaseContent (toDictBaseContent o) = .ok o := by
  have key : ∀ o, fromDictBaseContent d = .ok o →
      fromDictBaseContent (toDictBaseContent o) = .ok o := by
    unfold fromDictBaseContent
    refine bind_post _ _ (fun kv _ => ?_)
    refine bind_post _ _ (fun st _ => ?_)
    cases hab : isAbsent st with
    | true =>
      simp only [if_true]
      intro o h
      cases hs : fromDictSkippedContent d with
      | error e => simp [hs, Except.map] at h
      | ok s =>
        simp only [hs, Except.map, Except.ok.injEq] at h
        subst h
        have hv := valid_SkippedContent d s hs
        have hst : s.status = k!"absent" := by
          have := hv.2
          simpa [skippedStatuses] using this
        have hr := rt_SkippedContent s hv
        simp only [toDictBaseContent]
        rw [hr]
        simp [toDictSkippedContent, item_build, specLookup, hst, isAbsent, bind, Except.bind,
          Except.map]
    | false =>
      simp only [Bool.false_eq_true, if_false]
      intro o h
      cases hs : fromDictContent d with
      | error e => simp [hs, Except.map] at h
      | ok c =>
        simp only [hs, Except.map, Except.ok.injEq] at h
        subst h
        have hv := valid_Content d c hs
        have hst : (c.status == k!"absent") = false := by
          have := hv.2.1
          simp only [contentStatuses, List.mem_cons, List.not_mem_nil, or_false] at this
          rcases this with h | h <;> rw [h] <;> decide
        have hr := rt_Content c hv
        simp only [toDictBaseContent]
        rw [hr]
        simp [toDictContent, item_build, specLookup, hst, isAbsent, bind, Except.bind, Except.map]
  exact key o h

theorem roundTripWith_stable (ids : IdFns) (hn : ids.NonEmpty) (cls : String) (d d1 d2 : Val)
    (h : roundTripWith ids cls d = .ok (d1, d2)) : d1 = d2 := by
  unfold roundTripWith at h
  split at h
  · exact rt_stable _ _ (fun _ o _ => rt_Person o) d d1 d2 h
  · exact rt_stable _ _ (fun d o ho => rt_Timestamp o (valid_Timestamp d o ho)) d d1 d2 h
  · exact rt_stable _ _ (fun d o ho =>
      rt_TimestampWithTimezone o (valid_TimestampWithTimezone d o ho)) d d1 d2 h
  · exact rt_stable _ _ (fun d o ho => rt_Origin ids o (valid_Origin ids hn d o ho)) d d1 d2 h
  · exact rt_stable _ _ (fun _ o _ => rt_OriginVisit o) d d1 d2 h
  · exact rt_stable _ _ (fun d o ho =>
      rt_OriginVisitStatus o (valid_OriginVisitStatus d o ho)) d d1 d2 h
  · exact rt_stable _ _ (fun d o ho => rt_SnapshotBranch o (valid_SnapshotBranch d o ho)) d d1 d2 h
  · exact rt_stable _ _ (fun d o ho => rt_Snapshot ids o (valid_Snapshot ids hn d o ho)) d d1 d2 h
  · exact rt_stable _ _ (fun d o ho => rt_Release ids o (valid_Release ids hn d o ho)) d d1 d2 h
  · exact rt_stable _ _ (fun d o ho => rt_Revision ids o (valid_Revision ids hn d o ho)) d d1 d2 h
  · exact rt_stable _ _ (fun d o ho => rt_DirectoryEntry o (valid_DirectoryEntry d o ho)) d d1 d2 h
  · exact rt_stable _ _ (fun d o ho => rt_Directory ids o (valid_Directory ids hn d o ho)) d d1 d2 h
  · exact rt_stable _ _ (fun d o ho => rt_Content o (valid_Content d o ho)) d d1 d2 h
  · exact rt_stable _ _ (fun d o ho => rt_SkippedContent o (valid_SkippedContent d o ho)) d d1 d2 h
  · exact rt_stable _ _ (fun d o ho => baseContent_stable d o ho) d d1 d2 h
  · exact rt_stable _ _ (fun d o ho =>
      rt_MetadataAuthority o (valid_MetadataAuthority d o ho)) d d1 d2 h
  · exact rt_stable _ _ (fun _ o _ => rt_MetadataFetcher o) d d1 d2 h
  · exact rt_stable _ _ (fun d o ho =>
      rt_RawExtrinsicMetadata ids o (valid_RawExtrinsicMetadata ids hn d o ho)) d d1 d2 h
  · exact rt_stable _ _ (fun d o ho => rt_ExtID ids o (valid_ExtID ids hn d o ho)) d d1 d2 h
  · cases h

end Swh.Serde
