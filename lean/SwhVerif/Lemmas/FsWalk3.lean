import SwhVerif.Lemmas.FsPath
/-! The breadth-first `traversal` list of pass 2 (`bfsLoop`): which paths it holds, in which
    order. -/
namespace Swh.Fs
open Swh

/-- the queue after one whole level was consumed -/
def kids : List (List Bytes × RNode) → List (List Bytes × RNode)
  | [] => []
  | (p, n) :: q => childDirs p n.entries ++ kids q

/-- level by level: the paths of the queue, then those of the next level, … (`d` levels) -/
def levels : Nat → List (List Bytes × RNode) → List (List Bytes)
  | 0, _ => []
  | d + 1, Q => Q.map (·.1) ++ levels d (kids Q)

def totalSize : List (List Bytes × RNode) → Nat
  | [] => 0
  | (_, n) :: q => RNode.size n + totalSize q

theorem bfsLoop_step (fuel : Nat) (p : List Bytes) (n : RNode) (q : List (List Bytes × RNode)) :
    bfsLoop (fuel + 1) ((p, n) :: q) = p :: bfsLoop fuel (q ++ childDirs p n.entries) := by
  cases n with
  | directory es => rfl
  | content c => simp [bfsLoop, RNode.entries, childDirs]

theorem bfsLoop_nil (fuel : Nat) : bfsLoop fuel [] = [] := by cases fuel <;> rfl

/-- consuming a whole prefix of the queue -/
theorem bfs_queue (Q : List (List Bytes × RNode)) :
    ∀ (R : List (List Bytes × RNode)) (fuel : Nat),
      bfsLoop (Q.length + fuel) (Q ++ R) = Q.map (·.1) ++ bfsLoop fuel (R ++ kids Q) := by
  induction Q with
  | nil => intro R fuel; simp [kids]
  | cons x Q ih =>
    intro R fuel
    obtain ⟨p, n⟩ := x
    have e : (((p, n) :: Q).length + fuel) = (Q.length + fuel) + 1 := by simp; omega
    rw [e, List.cons_append, bfsLoop_step, List.append_assoc, ih]
    simp [kids, List.append_assoc]

theorem levels_nil (d : Nat) : levels d [] = [] := by
  induction d with
  | zero => rfl
  | succ d ih => simp [levels, kids, ih]

theorem size_pos (n : RNode) : 1 ≤ RNode.size n := by cases n <;> simp [RNode.size]

theorem totalSize_childDirs (p : List Bytes) (es : List (Bytes × RNode)) :
    totalSize (childDirs p es) ≤ RNode.sizeL es := by
  induction es with
  | nil => simp [childDirs, totalSize, RNode.sizeL]
  | cons x r ih =>
    obtain ⟨n, c⟩ := x
    cases c with
    | directory ces => simp only [childDirs, totalSize, RNode.sizeL]; omega
    | content cc => simp only [childDirs, RNode.sizeL]; omega

theorem totalSize_append (A B : List (List Bytes × RNode)) :
    totalSize (A ++ B) = totalSize A + totalSize B := by
  induction A with
  | nil => simp [totalSize]
  | cons x A ih => obtain ⟨p, n⟩ := x; simp only [List.cons_append, totalSize, ih]; omega

theorem totalSize_kids (Q : List (List Bytes × RNode)) : totalSize (kids Q) + Q.length ≤ totalSize Q := by
  induction Q with
  | nil => simp [kids, totalSize]
  | cons x Q ih =>
    obtain ⟨p, n⟩ := x
    simp only [kids, totalSize, totalSize_append, List.length_cons]
    have : totalSize (childDirs p n.entries) + 1 ≤ RNode.size n := by
      cases n with
      | directory es =>
        have := totalSize_childDirs p es
        simp only [RNode.entries, RNode.size]; omega
      | content c => simp [RNode.entries, childDirs, totalSize, RNode.size]
    omega

/-- with enough fuel the queue loop is the level-by-level enumeration -/
theorem bfs_levels : ∀ (d : Nat) (Q : List (List Bytes × RNode)) (fuel : Nat),
    totalSize Q ≤ d → totalSize Q ≤ fuel → bfsLoop fuel Q = levels d Q := by
  intro d
  induction d with
  | zero =>
    intro Q fuel hd _
    cases Q with
    | nil => simp [bfsLoop_nil, levels]
    | cons x Q =>
      obtain ⟨p, n⟩ := x
      have := size_pos n
      simp only [totalSize] at hd; omega
  | succ d ih =>
    intro Q fuel hd hf
    cases hQ : Q with
    | nil => simp [bfsLoop_nil, levels_nil]
    | cons x Q' =>
      rw [← hQ]
      have hk := totalSize_kids Q
      have hlen : 1 ≤ Q.length := by rw [hQ]; simp
      have e : fuel = Q.length + (fuel - Q.length) := by omega
      have := bfs_queue Q [] (fuel - Q.length)
      rw [List.append_nil, List.nil_append, ← e] at this
      rw [this, levels, ih (kids Q) (fuel - Q.length) (by omega) (by omega)]

/-! ### what the level enumeration contains -/

theorem mem_childDirs (p : List Bytes) (es : List (Bytes × RNode)) (x : List Bytes × RNode) :
    x ∈ childDirs p es ↔ ∃ n ces, (n, RNode.directory ces) ∈ es ∧ x = (p ++ [n], RNode.directory ces) := by
  induction es with
  | nil => simp [childDirs]
  | cons y r ih =>
    obtain ⟨n, c⟩ := y
    cases c with
    | directory ces =>
      simp only [childDirs, List.mem_cons, ih]
      constructor
      · rintro (h | ⟨n', ces', hm, hx⟩)
        · exact ⟨n, ces, Or.inl rfl, h⟩
        · exact ⟨n', ces', Or.inr hm, hx⟩
      · rintro ⟨n', ces', hm | hm, hx⟩
        · simp only [Prod.mk.injEq, RNode.directory.injEq] at hm
          left; rw [hx, hm.1, hm.2]
        · exact Or.inr ⟨n', ces', hm, hx⟩
    | content cc =>
      simp only [childDirs, ih, List.mem_cons]
      constructor
      · rintro ⟨n', ces', hm, hx⟩; exact ⟨n', ces', Or.inr hm, hx⟩
      · rintro ⟨n', ces', hm | hm, hx⟩
        · simp at hm
        · exact ⟨n', ces', hm, hx⟩

theorem mem_kids (Q : List (List Bytes × RNode)) (x : List Bytes × RNode) :
    x ∈ kids Q ↔ ∃ y ∈ Q, x ∈ childDirs y.1 y.2.entries := by
  induction Q with
  | nil => simp [kids]
  | cons y Q ih =>
    obtain ⟨p, n⟩ := y
    simp only [kids, List.mem_append, ih, List.mem_cons]
    constructor
    · rintro (h | ⟨y, hy, hx⟩)
      · exact ⟨(p, n), Or.inl rfl, h⟩
      · exact ⟨y, Or.inr hy, hx⟩
    · rintro ⟨y, rfl | hy, hx⟩
      · exact Or.inl hx
      · exact Or.inr ⟨y, hy, hx⟩

/-- names are distinct and non-empty in every directory of the tree -/
def RWf (t : RNode) : Prop :=
  ∀ p es, getAt t p = some (.directory es) → (names es).Nodup ∧ ∀ n ∈ names es, n ≠ []

theorem RWf.child {E : List (Bytes × RNode)} (h : RWf (.directory E)) {n : Bytes} {X : RNode}
    (hm : (n, X) ∈ E) : RWf X ∧ assoc n E = some X := by
  have hnd := (h [] E rfl).1
  have ha := assoc_of_mem n E X hnd hm
  refine ⟨?_, ha⟩
  intro p es hg
  exact h (n :: p) es (by simp [getAt, ha, hg])

/-- a queue of directories of well-formed trees -/
def QOK (Q : List (List Bytes × RNode)) : Prop := ∀ x ∈ Q, x.2.isDirectory = true ∧ RWf x.2

theorem QOK.kids {Q : List (List Bytes × RNode)} (h : QOK Q) : QOK (kids Q) := by
  intro y hy
  obtain ⟨z, hz, hyz⟩ := (mem_kids Q y).mp hy
  obtain ⟨n, ces, hm, rfl⟩ := (mem_childDirs _ _ y).mp hyz
  refine ⟨rfl, ?_⟩
  cases hzn : z.2 with
  | content c => rw [hzn] at hm; simp [RNode.entries] at hm
  | directory E =>
    rw [hzn] at hm
    have := (h z hz).2
    rw [hzn] at this
    exact (this.child hm).1

/-- every enumerated path leads, from some queue element, to a directory -/
theorem levels_sound : ∀ (d : Nat) (Q : List (List Bytes × RNode)), QOK Q →
    ∀ path ∈ levels d Q, ∃ x ∈ Q, ∃ q es, path = x.1 ++ q ∧ getAt x.2 q = some (.directory es) := by
  intro d
  induction d with
  | zero => intro Q _ path hp; simp [levels] at hp
  | succ d ih =>
    intro Q hQ path hp
    simp only [levels, List.mem_append, List.mem_map] at hp
    rcases hp with ⟨x, hx, rfl⟩ | hp
    · have := (hQ x hx).1
      cases hn : x.2 with
      | content c => rw [hn] at this; simp [RNode.isDirectory] at this
      | directory es => exact ⟨x, hx, [], es, by simp, by simp [getAt, hn]⟩
    · obtain ⟨y, hy, q, es, rfl, hg⟩ := ih (kids Q) hQ.kids path hp
      obtain ⟨z, hz, hyz⟩ := (mem_kids Q y).mp hy
      obtain ⟨n, ces, hm, rfl⟩ := (mem_childDirs _ _ y).mp hyz
      refine ⟨z, hz, n :: q, es, by simp, ?_⟩
      cases hzn : z.2 with
      | content c => rw [hzn] at hm; simp [RNode.entries] at hm
      | directory E =>
        rw [hzn] at hm
        simp only [RNode.entries] at hm
        have := (hQ z hz).2
        rw [hzn] at this
        simp [getAt, (this.child hm).2, hg]

/-- every directory below a queue element is enumerated (given enough levels) -/
theorem levels_cover : ∀ (d : Nat) (Q : List (List Bytes × RNode)), totalSize Q ≤ d →
    ∀ x ∈ Q, ∀ q es, getAt x.2 q = some (.directory es) → x.1 ++ q ∈ levels d Q := by
  intro d
  induction d with
  | zero =>
    intro Q hd x hx
    obtain ⟨p, n⟩ := x
    cases Q with
    | nil => simp at hx
    | cons y Q =>
      obtain ⟨p', n'⟩ := y
      have := size_pos n'
      simp only [totalSize] at hd; omega
  | succ d ih =>
    intro Q hd x hx q es hg
    simp only [levels, List.mem_append, List.mem_map]
    cases q with
    | nil => left; exact ⟨x, hx, by simp⟩
    | cons c q' =>
      right
      have hk := totalSize_kids Q
      have hlen : 1 ≤ Q.length := by cases Q <;> simp at hx ⊢
      cases hxn : x.2 with
      | content cc => rw [hxn] at hg; simp [getAt] at hg
      | directory E =>
        rw [hxn] at hg
        simp only [getAt] at hg
        cases ha : assoc c E with
        | none => simp [ha] at hg
        | some X =>
          simp only [ha] at hg
          -- `X` is a directory, since a directory lies below it
          cases X with
          | content cc =>
            cases q' <;> simp [getAt] at hg
          | directory ces =>
            have hm : (x.1 ++ [c], RNode.directory ces) ∈ kids Q := by
              rw [mem_kids]
              refine ⟨x, hx, ?_⟩
              rw [mem_childDirs]
              exact ⟨c, ces, by rw [hxn]; exact assoc_mem c E _ ha, rfl⟩
            have := ih (kids Q) (by omega) _ hm q' es hg
            simpa using this

/-! ### order -/

/-- all queue paths have length `l` -/
def AtDepth (l : Nat) (Q : List (List Bytes × RNode)) : Prop := ∀ x ∈ Q, x.1.length = l

theorem AtDepth.kids {l : Nat} {Q : List (List Bytes × RNode)} (h : AtDepth l Q) : AtDepth (l + 1) (kids Q) := by
  intro y hy
  obtain ⟨z, hz, hyz⟩ := (mem_kids Q y).mp hy
  obtain ⟨n, ces, _, rfl⟩ := (mem_childDirs _ _ y).mp hyz
  simp [h z hz]

theorem levels_length : ∀ (d l : Nat) (Q : List (List Bytes × RNode)), AtDepth l Q →
    ∀ path ∈ levels d Q, l ≤ path.length := by
  intro d
  induction d with
  | zero => intro l Q _ path hp; simp [levels] at hp
  | succ d ih =>
    intro l Q hQ path hp
    simp only [levels, List.mem_append, List.mem_map] at hp
    rcases hp with ⟨x, hx, rfl⟩ | hp
    · exact Nat.le_of_eq (hQ x hx).symm
    · have := ih (l + 1) (kids Q) hQ.kids path hp; omega

theorem childDirs_paths_nodup (p : List Bytes) (es : List (Bytes × RNode)) (h : (names es).Nodup) :
    ((childDirs p es).map (·.1)).Nodup := by
  induction es with
  | nil => simp [childDirs]
  | cons y r ih =>
    obtain ⟨n, c⟩ := y
    simp only [names_cons, List.nodup_cons] at h
    cases c with
    | content cc => simpa [childDirs] using ih h.2
    | directory ces =>
      simp only [childDirs, List.map_cons, List.nodup_cons]
      refine ⟨?_, ih h.2⟩
      intro hm
      obtain ⟨x, hx, hxe⟩ := List.mem_map.mp hm
      obtain ⟨n', ces', hm', rfl⟩ := (mem_childDirs p r x).mp hx
      have : n' = n := by simpa using hxe
      exact h.1 (this ▸ mem_names_of_mem hm')

theorem kids_paths_nodup (l : Nat) (Q : List (List Bytes × RNode)) (hd : AtDepth l Q) (hq : QOK Q)
    (hn : (Q.map (·.1)).Nodup) : ((kids Q).map (·.1)).Nodup := by
  induction Q with
  | nil => simp [kids]
  | cons x Q ih =>
    obtain ⟨p, n⟩ := x
    simp only [List.map_cons, List.nodup_cons] at hn
    have hd' : AtDepth l Q := fun y hy => hd y (by simp [hy])
    have hq' : QOK Q := fun y hy => hq y (by simp [hy])
    simp only [kids, List.map_append, List.nodup_append]
    refine ⟨?_, ih hd' hq' hn.2, ?_⟩
    · cases n with
      | content c => simp [RNode.entries, childDirs]
      | directory E =>
        have := (hq (p, .directory E) (by simp)).2
        exact childDirs_paths_nodup p E (this [] E rfl).1
    · intro a ha b hb hab
      obtain ⟨x, hx, rfl⟩ := List.mem_map.mp ha
      obtain ⟨y, hy, rfl⟩ := List.mem_map.mp hb
      obtain ⟨n1, c1, _, rfl⟩ := (mem_childDirs _ _ x).mp hx
      obtain ⟨z, hz, hyz⟩ := (mem_kids Q y).mp hy
      obtain ⟨n2, c2, _, rfl⟩ := (mem_childDirs _ _ y).mp hyz
      simp only at hab
      have hl : p.length = z.1.length := by
        rw [hd (p, n) (by simp), hd' z hz]
      have := (List.append_inj hab hl).1
      exact hn.1 (List.mem_map.mpr ⟨z, hz, this.symm⟩)

/-- in the enumeration no path is a prefix of an earlier one -/
theorem levels_order : ∀ (d l : Nat) (Q : List (List Bytes × RNode)), AtDepth l Q → QOK Q →
    (Q.map (·.1)).Nodup → (levels d Q).Pairwise (fun a b => ¬ b <+: a) := by
  intro d
  induction d with
  | zero => intro l Q _ _ _; simp [levels]
  | succ d ih =>
    intro l Q hd hq hn
    simp only [levels, List.pairwise_append]
    refine ⟨?_, ih (l + 1) (kids Q) hd.kids hq.kids (kids_paths_nodup l Q hd hq hn), ?_⟩
    · refine hn.imp_of_mem ?_
      intro a b ha hb hab hpre
      obtain ⟨x, hx, rfl⟩ := List.mem_map.mp ha
      obtain ⟨y, hy, rfl⟩ := List.mem_map.mp hb
      have := hpre.eq_of_length (by rw [hd x hx, hd y hy])
      exact hab this.symm
    · intro a ha b hb hpre
      obtain ⟨x, hx, rfl⟩ := List.mem_map.mp ha
      have h1 := levels_length d (l + 1) (kids Q) hd.kids b hb
      have h2 := hpre.length_le
      rw [hd x hx] at h2; omega

end Swh.Fs
