import SwhVerif.Lemmas.SerdeRoundtrip1
import SwhVerif.Lemmas.SerdeSwhid
/-!
  C12 round trips, part 3: the classes with SWHID-valued fields (raw extrinsic metadata, ExtID).
-/
set_option linter.unusedSimpArgs false
namespace Swh.Serde
open Swh

theorem decIfTruthy_swhid_drop (x : Option BaseSwhid) (h : optValid (WfSwhid coreTags) x) :
    decIfTruthy (decSwhid coreTags) ((x.map encSwhid).getD .none) = .ok x := by
  cases x with
  | none => rfl
  | some b => simp [decIfTruthy, truthy_encSwhid, decSwhid_core b h, Except.map]

@[simp] theorem noneOrTruthy_swhid_drop (x : Option BaseSwhid) :
    noneOrTruthy ((x.map encSwhid).getD .none) = true := by
  cases x with
  | none => rfl
  | some b => simp [noneOrTruthy, truthy_encSwhid]

@[simp] theorem decOptIntStrict_drop (x : Option Int) :
    decOptIntStrict ((x.map Val.int).getD .none) = .ok x := by cases x <;> rfl

theorem rt_RawExtrinsicMetadata (ids : IdFns) (o : RawExtrinsicMetadata)
    (h : ValidRawExtrinsicMetadata o) :
    fromDictRawExtrinsicMetadata ids (toDictRawExtrinsicMetadata o) = .ok o := by
  obtain ⟨h1, h2, h3, h4, h5, h6, h7, h8, h9, h10, h11, h12, h13, h14, h15⟩ := h
  have hdd : convDiscoveryDate (encDt o.discovery_date) = .ok o.discovery_date := by
    simp only [encDt, convDiscoveryDate]
    exact congrArg Except.ok h2
  serde_simp [fromDictRawExtrinsicMetadata, remCore, toDictRawExtrinsicMetadata, remLegacy, remFields,
    decSwhid_ext o.target h1, rt_MetadataAuthority o.authority h3, rt_MetadataFetcher,
    decIfTruthy_swhid_drop o.snapshot h6, decIfTruthy_swhid_drop o.release h8,
    decIfTruthy_swhid_drop o.revision h10, decIfTruthy_swhid_drop o.directory h13,
    hdd, h4, h5, h7, h9, h11, h12, h14, h15]

theorem rt_ExtID (ids : IdFns) (o : ExtID) (h : ValidExtID o) :
    fromDictExtID ids (toDictExtID o) = .ok o := by
  obtain ⟨h1, h2, h3⟩ := h
  have hg1 : (!(o.payload_type.isSome && o.payload.isNone)) = true := by
    cases hp : o.payload_type <;> cases hq : o.payload <;> simp_all
  have hg2 : (!(o.payload.isSome && o.payload_type.isNone)) = true := by
    cases hp : o.payload_type <;> cases hq : o.payload <;> simp_all
  have hid : idOrEmpty (Val.bytes o.id) = Val.bytes o.id := by
    cases hi : o.id with
    | nil => exact absurd hi h3
    | cons _ _ => rfl
  serde_simp [fromDictExtID, toDictExtID, decSwhid_core o.target h1, hg1, hg2, hid, h3]

end Swh.Serde
