import SwhVerif.Lemmas.FsLookup
import SwhVerif.Props.C02
/-! Listing-order independence of the reader (C06). -/
namespace Swh.Fs
open Swh

/-- `t'` is `t` with the listing of any directory, at any depth, permuted: a directory maps to a
    directory with the same names (the name lists are permutations of each other) whose
    same-named children are again so related; a leaf maps to itself.  (Names inside a directory
    are distinct: `WfFs`.) -/
inductive FsPerm : FsNode → FsNode → Prop
  | file (m : Nat) (d : Bytes) : FsPerm (.file m d) (.file m d)
  | symlink (t : Bytes) : FsPerm (.symlink t) (.symlink t)
  | special (m : Nat) : FsPerm (.special m) (.special m)
  | dir (es es' : List (Bytes × FsNode)) :
      (names es).Perm (names es') →
      (∀ n c c', (n, c) ∈ es → (n, c') ∈ es' → FsPerm c c') →
      FsPerm (.dir es) (.dir es')

theorem FsPerm.refl_of_wf : ∀ t, WfFs t → FsPerm t t := by
  apply FsNode.induct
  · intro m d _; exact FsPerm.file m d
  · intro t _; exact FsPerm.symlink t
  · intro m _; exact FsPerm.special m
  · intro es ih hw
    have hw' := (WfFs_dir es).mp hw
    refine FsPerm.dir es es (List.Perm.refl _) ?_
    intro n c c' h h'
    have := mem_unique hw'.2.1 h h'
    subst this
    exact ih (n, c) h (hw'.2.2 _ h)

/-- permuting the listing of the top directory only -/
theorem FsPerm.of_perm {es es' : List (Bytes × FsNode)} (hw : WfFs (.dir es)) (hp : es.Perm es') :
    FsPerm (.dir es) (.dir es') := by
  have hw' := (WfFs_dir es).mp hw
  refine FsPerm.dir es es' (hp.map _) ?_
  intro n c c' h h'
  have := mem_unique hw'.2.1 h (hp.mem_iff.mpr h')
  subst this
  exact FsPerm.refl_of_wf c (hw'.2.2 _ h)

theorem FsPerm.wf {t t' : FsNode} (h : FsPerm t t') : WfFs t → WfFs t' := by
  induction h with
  | file m d => exact id
  | symlink t => exact id
  | special m => exact id
  | dir es es' hp _ ih =>
    intro hw
    have hw' := (WfFs_dir es).mp hw
    rw [WfFs_dir]
    refine ⟨fun n hn => hw'.1 n (hp.mem_iff.mpr hn), hp.nodup_iff.mp hw'.2.1, ?_⟩
    intro p hp'
    obtain ⟨c, hc⟩ := exists_of_mem_names (hp.mem_iff.mpr (mem_names_of_mem (n := p.1) (c := p.2) hp'))
    exact ih p.1 c p.2 hc hp' (hw'.2.2 _ hc)

/-! ### what a parent records of a child -/

/-- what is observable of a node without looking below it: kind, id, perms -/
def RNode.obs (H : Bytes → Bytes) (r : RNode) : Kind × Bytes × Nat := (r.kind, r.id H, r.perms)

theorem mkEntry_eq (n : Bytes) (r : RNode) (tgt : Bytes) :
    mkEntry n r tgt = ⟨n, if r.isDirectory then .dir else .file, r.perms, tgt⟩ := by
  cases r <;> simp [mkEntry, RNode.isDirectory, RNode.perms]

theorem isDirectory_of_kind (r : RNode) : r.isDirectory = decide (r.kind = .directory) := by
  cases r with
  | content c => by_cases h : c.skipped <;> simp [RNode.isDirectory, RNode.kind, h]
  | directory es => simp [RNode.isDirectory, RNode.kind]

theorem mkEntry_congr (H : Bytes → Bytes) (n : Bytes) (r r' : RNode) (h : r.obs H = r'.obs H) :
    mkEntry n r (r.id H) = mkEntry n r' (r'.id H) := by
  simp only [RNode.obs, Prod.mk.injEq] at h
  rw [mkEntry_eq, mkEntry_eq, isDirectory_of_kind, isDirectory_of_kind, h.1, h.2.1, h.2.2]

/-- the entry a directory records for an on-disk child -/
def entryFor (H : Bytes → Bytes) (ml : Option Nat) (p : Bytes × FsNode) : Entry :=
  mkEntry p.1 (readNode H ml p.2) ((readNode H ml p.2).id H)

theorem entryFor_name (H : Bytes → Bytes) (ml : Option Nat) (p : Bytes × FsNode) :
    (entryFor H ml p).name = p.1 := by
  simp [entryFor, mkEntry_eq]

theorem readNode_dir_id (H : Bytes → Bytes) (ml : Option Nat) (es : List (Bytes × FsNode)) :
    (readNode H ml (.dir es)).id H = H (dirManifest (es.map (entryFor H ml))) := by
  rw [readNode_dir]
  simp only [RNode.id, entriesOf_eq_map, List.map_map]
  rfl

theorem map_entryFor_names (H : Bytes → Bytes) (ml : Option Nat) (es : List (Bytes × FsNode)) :
    (es.map (entryFor H ml)).map Entry.name = names es := by
  simp only [List.map_map, names]
  apply List.map_congr_left
  intro p _; exact entryFor_name H ml p

theorem wfNames_entries (H : Bytes → Bytes) (ml : Option Nat) (es : List (Bytes × FsNode))
    (hw : WfFs (.dir es)) : C02.WfNames (es.map (entryFor H ml)) := by
  have hw' := (WfFs_dir es).mp hw
  refine ⟨by rw [map_entryFor_names]; exact hw'.2.1, ?_⟩
  intro e he
  obtain ⟨p, hp, rfl⟩ := List.mem_map.mp he
  rw [entryFor_name]
  exact (hw'.1 p.1 (List.mem_map.mpr ⟨p, hp, rfl⟩)).2.1

/-- **Order independence, one node**: kind, id and perms of the reading do not depend on the
    listing order of any directory below. -/
theorem readNode_obs_perm (H : Bytes → Bytes) (ml : Option Nat) {t t' : FsNode} (h : FsPerm t t') :
    WfFs t → (readNode H ml t).obs H = (readNode H ml t').obs H := by
  induction h with
  | file m d => intro _; rfl
  | symlink t => intro _; rfl
  | special m => intro _; rfl
  | dir es es' hp hch ih =>
    intro hw
    have hw' := (WfFs_dir es).mp hw
    have hwt' : WfFs (.dir es') := (FsPerm.dir es es' hp hch).wf hw
    have hw2 := (WfFs_dir es').mp hwt'
    have hkind : ∀ l, (readNode H ml (.dir l)).kind = .directory := by
      intro l; rw [readNode_dir]; rfl
    have hperms : ∀ l, (readNode H ml (.dir l)).perms = Gen.perms_directory := by
      intro l; rw [readNode_dir]; rfl
    simp only [RNode.obs, hkind, hperms, readNode_dir_id, Prod.mk.injEq, true_and, and_true]
    congr 1
    apply C02.dirManifest_perm _ _ _ (wfNames_entries H ml es hw)
    -- same-named children have the same entry
    have key : ∀ n c c', (n, c) ∈ es → (n, c') ∈ es' → entryFor H ml (n, c) = entryFor H ml (n, c') := by
      intro n c c' h1 h2
      exact mkEntry_congr H n _ _ (ih n c c' h1 h2 (hw'.2.2 _ h1))
    have nd : ∀ l : List (Bytes × FsNode), (names l).Nodup → (l.map (entryFor H ml)).Nodup := by
      intro l hl
      have : ((l.map (entryFor H ml)).map Entry.name).Nodup := by rw [map_entryFor_names]; exact hl
      exact List.Pairwise.of_map Entry.name (fun a b hne e => hne (by rw [e])) this
    rw [List.perm_ext_iff_of_nodup (nd es hw'.2.1) (nd es' hw2.2.1)]
    intro e
    constructor
    · intro he
      obtain ⟨⟨n, c⟩, hp1, rfl⟩ := List.mem_map.mp he
      obtain ⟨c', hc'⟩ := exists_of_mem_names (hp.mem_iff.mp (mem_names_of_mem hp1))
      rw [key n c c' hp1 hc']
      exact List.mem_map.mpr ⟨(n, c'), hc', rfl⟩
    · intro he
      obtain ⟨⟨n, c'⟩, hp1, rfl⟩ := List.mem_map.mp he
      obtain ⟨c, hc⟩ := exists_of_mem_names (hp.mem_iff.mpr (mem_names_of_mem hp1))
      rw [← key n c c' hc hp1]
      exact List.mem_map.mpr ⟨(n, c), hc, rfl⟩

/-- related trees have related sub-trees at every path -/
theorem FsPerm.sub {t t' : FsNode} (h : FsPerm t t') (hw : WfFs t) (path : List Bytes) :
    (t.sub path = none ∧ t'.sub path = none) ∨
    ∃ s s', t.sub path = some s ∧ t'.sub path = some s' ∧ FsPerm s s' := by
  induction path generalizing t t' with
  | nil => right; exact ⟨t, t', by cases t <;> rfl, by cases t' <;> rfl, h⟩
  | cons c rest ih =>
    cases h with
    | file m d => left; simp [FsNode.sub]
    | symlink t => left; simp [FsNode.sub]
    | special m => left; simp [FsNode.sub]
    | dir es es' hp hch =>
      have hw' := (WfFs_dir es).mp hw
      have hw2 := (WfFs_dir es').mp ((FsPerm.dir es es' hp hch).wf hw)
      simp only [FsNode.sub]
      cases ha : assoc c es with
      | none =>
        have : assoc c es' = none := by
          rw [assoc_eq_none] at ha ⊢
          exact fun hm => ha (hp.mem_iff.mpr hm)
        left; simp [this]
      | some ch =>
        have hm := assoc_mem c es ch ha
        obtain ⟨ch', hm'⟩ := exists_of_mem_names (hp.mem_iff.mp (mem_names_of_mem hm))
        rw [assoc_of_mem c es' ch' hw2.2.1 hm']
        exact ih (hch c ch ch' hm hm') (hw'.2.2 _ hm)

/-- **Order independence, every path**: the same paths exist, with the same kind, id, perms -/
theorem lookup_obs_perm (H : Bytes → Bytes) (ml : Option Nat) {t t' : FsNode} (h : FsPerm t t')
    (hw : WfFs t) (path : List Bytes) (hp : ∀ c ∈ path, c ≠ []) :
    ((readNode H ml t).lookup path).map (RNode.obs H) =
      ((readNode H ml t').lookup path).map (RNode.obs H) := by
  rw [lookup_readNode H ml t path hp, lookup_readNode H ml t' path hp]
  rcases h.sub hw path with ⟨h1, h2⟩ | ⟨s, s', h1, h2, hs⟩
  · simp [h1, h2]
  · simp only [h1, h2, Option.map_some, Option.some.injEq]
    exact readNode_obs_perm H ml hs (hw.sub path s h1)

/-- the error condition is order independent as well -/
theorem bad_perm (ml : Option Nat) {t t' : FsNode} (h : FsPerm t t') :
    WfFs t → bad acceptAllPaths ml t = bad acceptAllPaths ml t' := by
  have hany : ∀ l, badL acceptAllPaths ml l = l.any (fun p => bad acceptAllPaths ml p.2) := by
    intro l
    induction l with
    | nil => simp [badL]
    | cons p r ih => obtain ⟨n, c⟩ := p; simp [badL, accepts_acceptAll, ih]
  induction h with
  | file m d => intro _; rfl
  | symlink t => intro _; rfl
  | special m => intro _; rfl
  | dir es es' hp hch ih =>
    intro hw
    have hw' := (WfFs_dir es).mp hw
    simp only [bad, hany]
    rw [Bool.eq_iff_iff]
    simp only [List.any_eq_true]
    constructor
    · rintro ⟨⟨n, c⟩, hm, hb⟩
      obtain ⟨c', hc'⟩ := exists_of_mem_names (hp.mem_iff.mp (mem_names_of_mem hm))
      exact ⟨(n, c'), hc', by rw [← ih n c c' hm hc' (hw'.2.2 _ hm)]; exact hb⟩
    · rintro ⟨⟨n, c'⟩, hm, hb⟩
      obtain ⟨c, hc⟩ := exists_of_mem_names (hp.mem_iff.mpr (mem_names_of_mem hm))
      exact ⟨(n, c), hc, by rw [ih n c c' hc hm (hw'.2.2 _ hc)]; exact hb⟩

end Swh.Fs
