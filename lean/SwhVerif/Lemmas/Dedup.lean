import SwhVerif.Model.Dedup
import SwhVerif.Lemmas.Bytes
import SwhVerif.Lemmas.Directory
import SwhVerif.Lemmas.Toposort
/-!
# Lemmas about the model of `Directory.from_possibly_duplicated_entries`

1. the validator raises exactly on repeated names (`validatorRaises_eq_false_iff`);
2. `firstNames` is duplicate-free and lists exactly the names of the input;
3. the visiting order is a permutation of the input (`visitOrder_perm`);
4. candidates are pairwise distinct, so the `while` loop finds a fresh name within
   `used.length + 1` steps (`freshName_not_mem`) and fuel exhaustion is impossible;
5. shape of the replacement names (`freshName_form`);
6. the invariants of the renaming loop (`renameLoop_*`);
7. the winner of a name has the most important type (`group_head`).

Core Lean only.
-/
namespace Swh.Dedup
open Swh

/-! ## 1. the validator -/

theorem validatorRaises_eq_false_iff (seen : List Bytes) (es : List Entry) :
    validatorRaises seen es = false ↔
      (es.map Entry.name).Nodup ∧ ∀ e ∈ es, e.name ∉ seen := by
  induction es generalizing seen with
  | nil => simp [validatorRaises]
  | cons e es ih =>
    simp only [validatorRaises, List.map_cons, List.nodup_cons, List.mem_cons, List.mem_map,
      not_exists, not_and, forall_eq_or_imp]
    by_cases h : e.name ∈ seen
    · simp [h]
    · simp only [h, if_false, ih, List.mem_cons, not_or, not_false_eq_true, true_and]
      constructor
      · rintro ⟨hnd, hall⟩
        exact ⟨⟨fun x hx hxe => (hall x hx).1 hxe, hnd⟩, fun x hx => (hall x hx).2⟩
      · rintro ⟨⟨hne, hnd⟩, hall⟩
        exact ⟨hnd, fun x hx => ⟨fun hxe => hne x hx hxe, hall x hx⟩⟩

theorem validatorRaises_iff (es : List Entry) :
    validatorRaises [] es = true ↔ ¬ (es.map Entry.name).Nodup := by
  have := validatorRaises_eq_false_iff [] es
  simp only [List.not_mem_nil, not_false_eq_true, implies_true, and_true] at this
  rw [← this]; simp

/-! ## 2. `firstNames` -/

/-- one dict insertion -/
def insertKey (keys : List Bytes) (e : Entry) : List Bytes :=
  if e.name ∈ keys then keys else keys ++ [e.name]

theorem firstNames_eq (es : List Entry) : firstNames es = es.foldl insertKey [] := rfl

theorem foldl_insertKey_nodup (es : List Entry) (acc : List Bytes) (h : acc.Nodup) :
    (es.foldl insertKey acc).Nodup := by
  induction es generalizing acc with
  | nil => exact h
  | cons e es ih =>
    simp only [List.foldl_cons]
    apply ih
    unfold insertKey
    split
    · exact h
    · rename_i hn
      rw [List.nodup_append]
      refine ⟨h, by simp, ?_⟩
      intro a ha b hb
      simp only [List.mem_singleton] at hb
      subst hb
      exact fun hab => hn (hab ▸ ha)

theorem foldl_insertKey_mem (es : List Entry) (acc : List Bytes) (x : Bytes) :
    x ∈ es.foldl insertKey acc ↔ x ∈ acc ∨ x ∈ es.map Entry.name := by
  induction es generalizing acc with
  | nil => simp
  | cons e es ih =>
    simp only [List.foldl_cons, ih, List.map_cons, List.mem_cons]
    unfold insertKey
    split
    · rename_i hm
      constructor
      · rintro (h | h)
        · exact Or.inl h
        · exact Or.inr (Or.inr h)
      · rintro (h | h | h)
        · exact Or.inl h
        · exact Or.inl (h ▸ hm)
        · exact Or.inr h
    · simp only [List.mem_append, List.mem_singleton]
      constructor
      · rintro ((h | h) | h)
        · exact Or.inl h
        · exact Or.inr (Or.inl h)
        · exact Or.inr (Or.inr h)
      · rintro (h | h | h)
        · exact Or.inl (Or.inl h)
        · exact Or.inl (Or.inr h)
        · exact Or.inr h

theorem firstNames_nodup (es : List Entry) : (firstNames es).Nodup :=
  foldl_insertKey_nodup es [] List.nodup_nil

theorem mem_firstNames (es : List Entry) (x : Bytes) :
    x ∈ firstNames es ↔ x ∈ es.map Entry.name := by
  rw [firstNames_eq, foldl_insertKey_mem]; simp

/-! ## 3. the visiting order is a permutation of the input -/

theorem tagGroup_map_snd (g : List Entry) : (tagGroup g).map Prod.snd = g := by
  cases g with
  | nil => rfl
  | cons w rest => simp [tagGroup, List.map_map, Function.comp_def]

theorem group_perm (es : List Entry) (x : Bytes) :
    (group es x).Perm (es.filter (fun e => e.name = x)) := by
  induction es with
  | nil => simp [group, bucket]
  | cons e es ih =>
    unfold group bucket at ih ⊢
    by_cases hx : e.name = x
    · cases ht : e.type
      · -- file: goes to the end of the third bucket's front
        simp only [List.filter_cons, hx, ht, decide_true, Bool.true_and, if_true,
          decide_false, Bool.and_false, Bool.false_eq_true, if_false, reduceCtorEq]
        exact List.perm_middle.trans (List.Perm.cons _ ih)
      · simp only [List.filter_cons, hx, ht, decide_true, Bool.true_and, if_true,
          decide_false, Bool.and_false, Bool.false_eq_true, if_false, reduceCtorEq,
          List.cons_append, List.append_assoc]
        refine List.perm_middle.trans (List.Perm.cons _ ?_)
        rw [← List.append_assoc]; exact ih
      · simp only [List.filter_cons, hx, ht, decide_true, Bool.true_and, if_true,
          decide_false, Bool.and_false, Bool.false_eq_true, if_false, reduceCtorEq,
          List.cons_append]
        exact List.Perm.cons _ ih
    · simp only [List.filter_cons, hx, decide_false, Bool.false_and, Bool.false_eq_true,
        if_false]
      exact ih

theorem filter_split_perm (es : List Entry) (x : Bytes) (ns : List Bytes) (hx : x ∉ ns) :
    (es.filter (fun e => e.name = x) ++ es.filter (fun e => e.name ∈ ns)).Perm
      (es.filter (fun e => e.name ∈ x :: ns)) := by
  induction es with
  | nil => simp
  | cons e es ih =>
    by_cases h1 : e.name = x
    · subst h1
      simp only [List.filter_cons, hx, decide_true, if_true, decide_false,
        Bool.false_eq_true, if_false, List.mem_cons, true_or, List.cons_append]
      exact List.Perm.cons _ (by simpa [List.mem_cons] using ih)
    · by_cases h2 : e.name ∈ ns
      · simp only [List.filter_cons, h1, h2, decide_true, if_true, decide_false,
          Bool.false_eq_true, if_false, List.mem_cons, or_true]
        exact List.perm_middle.trans (List.Perm.cons _ (by simpa [List.mem_cons] using ih))
      · simp only [List.filter_cons, h1, h2, decide_false, Bool.false_eq_true, if_false,
          List.mem_cons, or_self]
        simpa [List.mem_cons] using ih

theorem flatMap_group_perm (es : List Entry) (ns : List Bytes) (hnd : ns.Nodup) :
    (ns.flatMap (group es)).Perm (es.filter (fun e => e.name ∈ ns)) := by
  induction ns with
  | nil => simp
  | cons x ns ih =>
    have h := List.nodup_cons.mp hnd
    rw [List.flatMap_cons]
    exact ((group_perm es x).append (ih h.2)).trans (filter_split_perm es x ns h.1)

theorem visitOrder_map_snd (es : List Entry) :
    (visitOrder es).map Prod.snd = (firstNames es).flatMap (group es) := by
  unfold visitOrder
  rw [List.map_flatMap]
  congr 1
  funext x
  exact tagGroup_map_snd _

theorem visitOrder_perm (es : List Entry) : ((visitOrder es).map Prod.snd).Perm es := by
  rw [visitOrder_map_snd]
  have h := flatMap_group_perm es (firstNames es) (firstNames_nodup es)
  have hall : es.filter (fun e => e.name ∈ firstNames es) = es := by
    rw [List.filter_eq_self]
    intro e he
    simp only [decide_eq_true_eq, mem_firstNames]
    exact List.mem_map_of_mem he
  rwa [hall] at h

/-! ## 4. candidates and the pigeonhole argument -/

theorem candidate_inj (pre : Bytes) (i j : Nat) (h : candidate pre i = candidate pre j) :
    i = j := by
  unfold candidate at h
  by_cases hi : i = 0 <;> by_cases hj : j = 0
  · omega
  · simp only [hi, hj, if_true, if_false] at h
    have := congrArg List.length h
    simp at this
  · simp only [hi, hj, if_true, if_false] at h
    have := congrArg List.length h
    simp at this
  · simp only [hi, hj, if_false] at h
    have h2 := List.append_cancel_left h
    exact dec_injective i j (List.cons.inj h2).2

/-- pigeonhole: among the first `used.length + 1` candidates one is not in `used` -/
theorem exists_fresh (used : List Bytes) (pre : Bytes) :
    ∃ j, j < used.length + 1 ∧ candidate pre j ∉ used := by
  apply Classical.byContradiction
  intro hno
  have hall : ∀ j, j < used.length + 1 → candidate pre j ∈ used := by
    intro j hj
    apply Classical.byContradiction
    intro hn
    exact hno ⟨j, hj, hn⟩
  let cs := (List.range (used.length + 1)).map (candidate pre)
  have hnd : cs.Nodup := by
    have := (List.nodup_range (n := used.length + 1))
    rw [List.nodup_iff_pairwise_ne] at this ⊢
    exact List.Pairwise.map _ (fun a b hab hc => hab (candidate_inj pre a b hc)) this
  have hsub : ∀ a ∈ cs, a ∈ used := by
    intro a ha
    simp only [cs, List.mem_map, List.mem_range] at ha
    obtain ⟨j, hj, rfl⟩ := ha
    exact hall j hj
  have := Swh.Toposort.length_le_of_nodup_subset cs used hnd hsub
  simp [cs] at this
  omega

theorem findFresh_not_mem (used : List Bytes) (pre : Bytes) (fuel k : Nat)
    (h : ∃ j, k ≤ j ∧ j < k + fuel ∧ candidate pre j ∉ used) :
    findFresh used pre fuel k ∉ used := by
  induction fuel generalizing k with
  | zero => obtain ⟨j, h1, h2, _⟩ := h; omega
  | succ f ih =>
    unfold findFresh
    split
    · rename_i hm
      apply ih
      obtain ⟨j, h1, h2, h3⟩ := h
      have : j ≠ k := fun hjk => h3 (hjk ▸ hm)
      exact ⟨j, by omega, by omega, h3⟩
    · assumption

theorem findFresh_form (used : List Bytes) (pre : Bytes) (fuel k : Nat) :
    ∃ j, findFresh used pre fuel k = candidate pre j := by
  induction fuel generalizing k with
  | zero => exact ⟨k, rfl⟩
  | succ f ih =>
    unfold findFresh
    split
    · exact ih (k + 1)
    · exact ⟨k, rfl⟩

/-- **the `while` loop terminates with a name that is not in `used_names`** -/
theorem freshName_not_mem (used : List Bytes) (pre : Bytes) : freshName used pre ∉ used := by
  unfold freshName
  apply findFresh_not_mem
  obtain ⟨j, hj, hn⟩ := exists_fresh used pre
  exact ⟨j, by omega, by omega, hn⟩

/-- the fuel of `freshName` is never exhausted: the result is the first candidate (in counter
    order) that is not in `used`, exactly as computed by the unbounded `while` loop. -/
theorem freshName_is_first (used : List Bytes) (pre : Bytes) :
    ∃ j, freshName used pre = candidate pre j ∧ candidate pre j ∉ used ∧
      ∀ i, i < j → candidate pre i ∈ used := by
  have key : ∀ fuel k, (∃ j, k ≤ j ∧ j < k + fuel ∧ candidate pre j ∉ used) →
      ∃ j, findFresh used pre fuel k = candidate pre j ∧ candidate pre j ∉ used ∧
        ∀ i, k ≤ i → i < j → candidate pre i ∈ used := by
    intro fuel
    induction fuel with
    | zero => intro k h; obtain ⟨j, h1, h2, _⟩ := h; omega
    | succ f ih =>
      intro k h
      unfold findFresh
      split
      · rename_i hm
        obtain ⟨j, h1, h2, h3⟩ := h
        have hne : j ≠ k := fun hjk => h3 (hjk ▸ hm)
        obtain ⟨j', e1, e2, e3⟩ := ih (k + 1) ⟨j, by omega, by omega, h3⟩
        refine ⟨j', e1, e2, ?_⟩
        intro i hi hij
        by_cases hik : i = k
        · exact hik ▸ hm
        · exact e3 i (by omega) hij
      · rename_i hm
        exact ⟨k, rfl, hm, fun i h1 h2 => by omega⟩
  obtain ⟨j, hj, hn⟩ := exists_fresh used pre
  obtain ⟨j', e1, e2, e3⟩ := key (used.length + 1) 0 ⟨j, by omega, by omega, hn⟩
  exact ⟨j', e1, e2, fun i hi => e3 i (by omega) hi⟩

/-! ## 5. shape of the replacement names -/

/-- what gets appended to the name of a renamed entry: non-empty, no NUL, no `'/'` -/
def SuffixOk (s : Bytes) : Prop := s ≠ [] ∧ bNUL ∉ s ∧ bSlash ∉ s

theorem lowerHex_ok (b : Byte) (h : isLowerHex b = true) : b ≠ bNUL ∧ b ≠ bSlash := by
  constructor <;> (intro hb; subst hb; revert h; decide)

theorem digit_ok (b : Byte) (h : 48 ≤ b.toNat ∧ b.toNat ≤ 57) : b ≠ bNUL ∧ b ≠ bSlash := by
  constructor <;> (intro hb; subst hb; revert h; decide)

theorem candidate_renamePrefix (e : Entry) (j : Nat) :
    ∃ s, candidate (renamePrefix e) j = e.name ++ s ∧ SuffixOk s := by
  have hhex : ∀ b ∈ (hexLower e.target).take 10, b ≠ bNUL ∧ b ≠ bSlash :=
    fun b hb => lowerHex_ok b (hexLower_all _ b (List.mem_of_mem_take hb))
  have hu : bUnderscore ≠ bNUL ∧ bUnderscore ≠ bSlash := by decide
  unfold candidate renamePrefix
  by_cases hj : j = 0
  · refine ⟨bUnderscore :: (hexLower e.target).take 10, by simp [hj], by simp, ?_, ?_⟩
    · intro hm
      rcases List.mem_cons.mp hm with h | h
      · exact hu.1 h.symm
      · exact (hhex _ h).1 rfl
    · intro hm
      rcases List.mem_cons.mp hm with h | h
      · exact hu.2 h.symm
      · exact (hhex _ h).2 rfl
  · have hdec : ∀ b ∈ dec j, b ≠ bNUL ∧ b ≠ bSlash := fun b hb => digit_ok b (dec_bytes j b hb)
    refine ⟨bUnderscore :: ((hexLower e.target).take 10 ++ bUnderscore :: dec j),
      by simp [hj], by simp, ?_, ?_⟩
    · intro hm
      simp only [List.mem_cons, List.mem_append] at hm
      rcases hm with h | h | h | h
      · exact hu.1 h.symm
      · exact (hhex _ h).1 rfl
      · exact hu.1 h.symm
      · exact (hdec _ h).1 rfl
    · intro hm
      simp only [List.mem_cons, List.mem_append] at hm
      rcases hm with h | h | h | h
      · exact hu.2 h.symm
      · exact (hhex _ h).2 rfl
      · exact hu.2 h.symm
      · exact (hdec _ h).2 rfl

theorem freshName_form (used : List Bytes) (e : Entry) :
    ∃ s, freshName used (renamePrefix e) = e.name ++ s ∧ SuffixOk s := by
  obtain ⟨j, hj⟩ := findFresh_form used (renamePrefix e) (used.length + 1) 0
  unfold freshName
  rw [hj]
  exact candidate_renamePrefix e j

/-! ## 6. the renaming loop -/

theorem renameLoop_map_fst (used : List Bytes) (tl : List (Bool × Entry)) :
    (renameLoop used tl).map Prod.fst = tl.map Prod.snd := by
  induction tl generalizing used with
  | nil => rfl
  | cons p tl ih =>
    obtain ⟨b, e⟩ := p
    cases b <;> simp [renameLoop, ih]

/-- every output entry is its original, at most renamed by appending an admissible suffix -/
theorem renameLoop_pair (used : List Bytes) (tl : List (Bool × Entry)) :
    ∀ p ∈ renameLoop used tl,
      p.2.type = p.1.type ∧ p.2.target = p.1.target ∧ p.2.perms = p.1.perms ∧
      (p.2 = p.1 ∨ ∃ s, p.2.name = p.1.name ++ s ∧ SuffixOk s) := by
  induction tl generalizing used with
  | nil => intro p hp; cases hp
  | cons q tl ih =>
    obtain ⟨b, e⟩ := q
    intro p hp
    cases b
    · simp only [renameLoop, List.mem_cons] at hp
      rcases hp with rfl | hp
      · exact ⟨rfl, rfl, rfl, Or.inr (freshName_form used e)⟩
      · exact ih _ p hp
    · simp only [renameLoop, List.mem_cons] at hp
      rcases hp with rfl | hp
      · exact ⟨rfl, rfl, rfl, Or.inl rfl⟩
      · exact ih _ p hp

/-- a winner is output unchanged -/
theorem renameLoop_winner (used : List Bytes) (tl : List (Bool × Entry)) (e : Entry)
    (h : (true, e) ∈ tl) : (e, e) ∈ renameLoop used tl := by
  induction tl generalizing used with
  | nil => cases h
  | cons q tl ih =>
    obtain ⟨b, e'⟩ := q
    rcases List.mem_cons.mp h with heq | hin
    · cases heq
      simp [renameLoop]
    · cases b
      · simp only [renameLoop, List.mem_cons]; exact Or.inr (ih _ hin)
      · simp only [renameLoop, List.mem_cons]; exact Or.inr (ih _ hin)

/-- names of the entries that keep their name -/
def winnerNames (tl : List (Bool × Entry)) : List Bytes :=
  (tl.filter Prod.fst).map (fun p => p.2.name)

theorem winnerNames_append (a b : List (Bool × Entry)) :
    winnerNames (a ++ b) = winnerNames a ++ winnerNames b := by
  simp [winnerNames]

/-- **loop invariant**: if the winners' names are distinct and all in `used`, the output names
    are distinct, and each is a winner's name or not in (the initial) `used`. -/
theorem renameLoop_nodup (used : List Bytes) (tl : List (Bool × Entry))
    (hnd : (winnerNames tl).Nodup) (hsub : ∀ x ∈ winnerNames tl, x ∈ used) :
    ((renameLoop used tl).map (fun p => p.2.name)).Nodup ∧
      ∀ y ∈ (renameLoop used tl).map (fun p => p.2.name), y ∈ winnerNames tl ∨ y ∉ used := by
  induction tl generalizing used with
  | nil => simp [renameLoop]
  | cons q tl ih =>
    obtain ⟨b, e⟩ := q
    cases b
    · -- renamed entry
      have hw : winnerNames ((false, e) :: tl) = winnerNames tl := by simp [winnerNames]
      rw [hw] at hnd hsub ⊢
      have hfresh := freshName_not_mem used (renamePrefix e)
      obtain ⟨ih1, ih2⟩ := ih (freshName used (renamePrefix e) :: used) hnd
        (fun x hx => List.mem_cons_of_mem _ (hsub x hx))
      simp only [renameLoop, List.map_cons, List.nodup_cons, List.mem_cons, forall_eq_or_imp]
      refine ⟨⟨?_, ih1⟩, Or.inr hfresh, ?_⟩
      · intro hm
        rcases ih2 _ hm with h | h
        · exact hfresh (hsub _ h)
        · exact h List.mem_cons_self
      · intro y hy
        rcases ih2 y hy with h | h
        · exact Or.inl h
        · exact Or.inr (fun hyu => h (List.mem_cons_of_mem _ hyu))
    · -- winner
      have hw : winnerNames ((true, e) :: tl) = e.name :: winnerNames tl := by simp [winnerNames]
      rw [hw] at hnd hsub ⊢
      obtain ⟨hne, hnd'⟩ := List.nodup_cons.mp hnd
      obtain ⟨ih1, ih2⟩ := ih used hnd' (fun x hx => hsub x (List.mem_cons_of_mem _ hx))
      simp only [renameLoop, List.map_cons, List.nodup_cons, List.mem_cons, forall_eq_or_imp]
      refine ⟨⟨?_, ih1⟩, by simp, ?_⟩
      · intro hm
        rcases ih2 _ hm with h | h
        · exact hne h
        · exact h (hsub _ List.mem_cons_self)
      · intro y hy
        rcases ih2 y hy with h | h
        · exact Or.inl (Or.inr h)
        · exact Or.inr h

theorem group_name (es : List Entry) (x : Bytes) : ∀ e ∈ group es x, e.name = x := by
  intro e he
  simp only [group, bucket, List.mem_append, List.mem_filter, Bool.and_eq_true,
    decide_eq_true_eq] at he
  rcases he with (h | h) | h <;> exact h.2.1

theorem group_mem (es : List Entry) (x : Bytes) : ∀ e ∈ group es x, e ∈ es := by
  intro e he
  simp only [group, bucket, List.mem_append, List.mem_filter] at he
  rcases he with (h | h) | h <;> exact h.1

theorem winnerNames_tagGroup (es : List Entry) (x : Bytes) :
    winnerNames (tagGroup (group es x)) = [] ∨ winnerNames (tagGroup (group es x)) = [x] := by
  have hn := group_name es x
  cases hg : group es x with
  | nil => left; rfl
  | cons w rest =>
    right
    have hw : w.name = x := hn w (by rw [hg]; exact List.mem_cons_self)
    simp [winnerNames, tagGroup, List.filter_map, Function.comp_def, hw]

theorem winnerNames_flatMap_sublist (es : List Entry) (ns : List Bytes) :
    (winnerNames (ns.flatMap (fun x => tagGroup (group es x)))).Sublist ns := by
  induction ns with
  | nil => simp [winnerNames]
  | cons x ns ih =>
    rw [List.flatMap_cons, winnerNames_append]
    rcases winnerNames_tagGroup es x with h | h <;> rw [h]
    · exact List.Sublist.cons _ ih
    · exact List.Sublist.cons_cons _ ih

theorem winnerNames_visitOrder_nodup (es : List Entry) : (winnerNames (visitOrder es)).Nodup :=
  List.Nodup.sublist (winnerNames_flatMap_sublist es (firstNames es)) (firstNames_nodup es)

theorem winnerNames_visitOrder_sub (es : List Entry) :
    ∀ x ∈ winnerNames (visitOrder es), x ∈ es.map Entry.name := by
  intro x hx
  exact (mem_firstNames es x).mp ((winnerNames_flatMap_sublist es (firstNames es)).subset hx)

/-! ## 7. the winner has the most important type -/

theorem group_head (es : List Entry) (x : Bytes) (hx : x ∈ es.map Entry.name) :
    ∃ w rest, group es x = w :: rest ∧ w.name = x ∧
      ∀ e ∈ es, e.name = x → rank w.type ≤ rank e.type := by
  have hb : ∀ t, ∀ e ∈ bucket es x t, e.name = x ∧ e.type = t := by
    intro t e he
    simpa [bucket, List.mem_filter] using (List.mem_filter.mp he).2
  have hnil : ∀ t, bucket es x t = [] → ∀ e ∈ es, e.name = x → e.type ≠ t := by
    intro t ht e he hex het
    have : e ∈ bucket es x t := by
      simp only [bucket, List.mem_filter, Bool.and_eq_true, decide_eq_true_eq]
      exact ⟨he, hex, het⟩
    rw [ht] at this
    cases this
  unfold group
  cases hR : bucket es x .rev with
  | cons r R =>
    have := hb .rev r (by rw [hR]; exact List.mem_cons_self)
    refine ⟨r, _, rfl, this.1, ?_⟩
    intro e _ _
    rw [this.2]; simp [rank]
  | nil =>
    have nR := hnil _ hR
    cases hD : bucket es x .dir with
    | cons d D =>
      have := hb .dir d (by rw [hD]; exact List.mem_cons_self)
      refine ⟨d, _, rfl, this.1, ?_⟩
      intro e he hex
      rw [this.2]
      have := nR e he hex
      cases ht : e.type <;> simp_all [rank]
    | nil =>
      have nD := hnil _ hD
      cases hF : bucket es x .file with
      | cons f F =>
        have := hb .file f (by rw [hF]; exact List.mem_cons_self)
        refine ⟨f, _, rfl, this.1, ?_⟩
        intro e he hex
        rw [this.2]
        have h1 := nR e he hex
        have h2 := nD e he hex
        cases ht : e.type <;> simp_all [rank]
      | nil =>
        exfalso
        have nF := hnil _ hF
        obtain ⟨e, he, hex⟩ := List.mem_map.mp hx
        cases ht : e.type
        · exact nF e he hex ht
        · exact nD e he hex ht
        · exact nR e he hex ht

/-- the winner of name `x` is tagged `true` in the visiting order -/
theorem winner_mem_visitOrder (es : List Entry) (x : Bytes) (hx : x ∈ es.map Entry.name)
    (w : Entry) (rest : List Entry) (hg : group es x = w :: rest) :
    (true, w) ∈ visitOrder es := by
  unfold visitOrder
  rw [List.mem_flatMap]
  exact ⟨x, (mem_firstNames es x).mpr hx, by rw [hg]; simp [tagGroup]⟩

end Swh.Dedup
