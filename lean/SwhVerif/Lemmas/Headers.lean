import SwhVerif.Base.Headers
import SwhVerif.Lemmas.Bytes
namespace Swh

theorem wfKey_iff (k : Bytes) : wfKey k = true ↔ k ≠ [] ∧ ∀ b ∈ k, b ≠ bSP ∧ b ≠ bNL := by
  cases k with
  | nil => simp [wfKey]
  | cons a k => simp [wfKey, List.all_eq_true]

theorem parseHdr_key (k1 k2 : Bytes) (acc : List Header) (rest : Bytes)
    (h : ∀ b ∈ k2, b ≠ bSP ∧ b ≠ bNL) :
    parseHdr (.inKey k1) acc (k2 ++ bSP :: rest) = parseHdr (.inVal (k1 ++ k2) []) acc rest := by
  induction k2 generalizing k1 with
  | nil => simp [parseHdr]
  | cons b k2 ih =>
    have hb := h b (by simp)
    simp only [List.cons_append, parseHdr, hb.1, hb.2, if_false]
    rw [ih (k1 ++ [b]) (fun x hx => h x (by simp [hx]))]
    simp

theorem parseHdr_val (k v1 v2 : Bytes) (acc : List Header) (rest : Bytes) :
    parseHdr (.inVal k v1) acc (escapeNewlines v2 ++ bNL :: rest)
      = parseHdr (.afterNl k (v1 ++ v2)) acc rest := by
  induction v2 generalizing v1 with
  | nil => simp [escapeNewlines, parseHdr]
  | cons b v2 ih =>
    by_cases hb : b = bNL
    · subst hb
      simp only [escapeNewlines, if_true, List.cons_append, parseHdr]
      rw [ih (v1 ++ [bNL])]; simp
    · simp only [escapeNewlines, hb, if_false, List.cons_append, parseHdr]
      rw [ih (v1 ++ [b])]; simp

theorem fmtHeader_append (k v rest : Bytes) :
    fmtHeader (k, v) ++ rest = k ++ bSP :: (escapeNewlines v ++ bNL :: rest) := by
  simp [fmtHeader]

theorem parseHdr_header_start (k v : Bytes) (acc : List Header) (rest : Bytes)
    (hk : wfKey k = true) :
    parseHdr .lineStart acc (fmtHeader (k, v) ++ rest) = parseHdr (.afterNl k v) acc rest := by
  obtain ⟨hne, hall⟩ := (wfKey_iff k).mp hk
  cases k with
  | nil => exact absurd rfl hne
  | cons b k =>
    have hb := hall b (by simp)
    rw [fmtHeader_append]
    simp only [List.cons_append, parseHdr, hb.1, hb.2, if_false]
    rw [parseHdr_key [b] k acc _ (fun x hx => hall x (by simp [hx]))]
    rw [parseHdr_val]; simp

theorem parseHdr_header_after (k0 v0 k v : Bytes) (acc : List Header) (rest : Bytes)
    (hk : wfKey k = true) :
    parseHdr (.afterNl k0 v0) acc (fmtHeader (k, v) ++ rest)
      = parseHdr (.afterNl k v) (acc ++ [(k0, v0)]) rest := by
  obtain ⟨hne, hall⟩ := (wfKey_iff k).mp hk
  cases k with
  | nil => exact absurd rfl hne
  | cons b k =>
    have hb := hall b (by simp)
    rw [fmtHeader_append]
    simp only [List.cons_append, parseHdr, hb.1, hb.2, if_false]
    rw [parseHdr_key [b] k _ _ (fun x hx => hall x (by simp [hx]))]
    rw [parseHdr_val]; simp

theorem parseHdr_after (k v : Bytes) (acc hs : List Header) (msg : Option Bytes)
    (hw : ∀ kv ∈ hs, wfKey kv.1 = true) :
    parseHdr (.afterNl k v) acc (fmtHeaders hs msg) = some (acc ++ (k, v) :: hs, msg) := by
  induction hs generalizing k v acc with
  | nil =>
    cases msg with
    | none => simp [fmtHeaders, parseHdr]
    | some m =>
      have : bNL ≠ bSP := by decide
      simp [fmtHeaders, parseHdr, this]
  | cons kv hs ih =>
    obtain ⟨k', v'⟩ := kv
    have : fmtHeaders ((k', v') :: hs) msg = fmtHeader (k', v') ++ fmtHeaders hs msg := by
      simp [fmtHeaders]
    rw [this, parseHdr_header_after k v k' v' acc _ (hw (k', v') (by simp))]
    rw [ih k' v' _ (fun x hx => hw x (by simp [hx]))]
    simp

/-- **Header codec round trip**: for git-valid keys and *arbitrary* values and message. -/
theorem parseHeaders_fmtHeaders (hs : List Header) (msg : Option Bytes)
    (hw : ∀ kv ∈ hs, wfKey kv.1 = true) :
    parseHeaders (fmtHeaders hs msg) = some (hs, msg) := by
  unfold parseHeaders
  cases hs with
  | nil =>
    cases msg with
    | none => simp [fmtHeaders, parseHdr]
    | some m => simp [fmtHeaders, parseHdr]
  | cons kv hs =>
    obtain ⟨k, v⟩ := kv
    have : fmtHeaders ((k, v) :: hs) msg = fmtHeader (k, v) ++ fmtHeaders hs msg := by
      simp [fmtHeaders]
    rw [this, parseHdr_header_start k v [] _ (hw (k, v) (by simp))]
    rw [parseHdr_after k v [] hs msg (fun x hx => hw x (by simp [hx]))]
    simp

theorem fmtHeaders_injective (hs hs' : List Header) (m m' : Option Bytes)
    (hw : ∀ kv ∈ hs, wfKey kv.1 = true) (hw' : ∀ kv ∈ hs', wfKey kv.1 = true)
    (h : fmtHeaders hs m = fmtHeaders hs' m') : hs = hs' ∧ m = m' := by
  have a := parseHeaders_fmtHeaders hs m hw
  have b := parseHeaders_fmtHeaders hs' m' hw'
  rw [h, b] at a
  simpa using a.symm

/-- the hypothesis is necessary: a key containing a space collides with another header list -/
example : fmtHeaders [(asc ['a',' ','b'], asc ['c'])] none = fmtHeaders [(asc ['a'], asc ['b',' ','c'])] none := by
  decide
/-- ... and an empty key is read back as a continuation line -/
example : fmtHeaders [(asc ['a'], asc ['x']), ([], asc ['y'])] none
        = fmtHeaders [(asc ['a'], asc ['x','\n','y'])] none := by decide
/-- the hypothesis is satisfiable by a non-trivial header list (multi-line, empty and
    space-leading values) -/
example : parseHeaders (fmtHeaders [(asc ['g','p','g'], asc ['a','\n','\n',' ','b']), (asc ['x'], []), (asc ['y'], asc [' '])] (some [])) =
    some ([(asc ['g','p','g'], asc ['a','\n','\n',' ','b']), (asc ['x'], []), (asc ['y'], asc [' '])], some []) := by
  decide

/-! ### git object header -/

theorem parseDecCanon_dec (n : Nat) : parseDecCanon (dec n) = some n := by
  have hp := parseDec_dec n
  cases h : dec n with
  | nil => exact absurd h (natBase_ne_nil 8 n)
  | cons b rest =>
    cases rest with
    | nil => simp [parseDecCanon, ← h, hp]
    | cons c rest =>
      simp only [parseDecCanon]
      by_cases hn : 10 ≤ n
      · have := natBase_head 8 n (by omega) hn
        have hp' : parseDec (b :: c :: rest) = some n := by rw [← h]; exact hp
        unfold dec at h
        rw [h] at this
        simp at this
        simp [this, hp']
      · -- n < 10: single digit, contradiction with two bytes
        exfalso
        have : dec n = [digitByte n] := by
          unfold dec natBase toBaseRev
          simp [show n < 8 + 2 by omega]
        rw [this] at h; simp at h

theorem stripGitHeader_gitObject (ty body : Bytes)
    (hty : ∀ b ∈ ty, b ≠ bNUL ∧ b ≠ bSP) :
    stripGitHeader ty (gitObject ty body) = some body := by
  unfold stripGitHeader gitObject gitHeader
  have hd : ∀ b ∈ dec body.length, b ≠ bNUL ∧ b ≠ bSP := by
    intro b hb
    have := dec_bytes _ b hb
    constructor <;> intro hc <;> subst hc <;> simp [bNUL, bSP] at this
  have h1 : splitFirst bNUL ((ty ++ bSP :: (dec body.length ++ [bNUL])) ++ body)
      = some (ty ++ bSP :: dec body.length, body) := by
    have : (ty ++ bSP :: (dec body.length ++ [bNUL])) ++ body
        = (ty ++ bSP :: dec body.length) ++ bNUL :: body := by simp
    rw [this]
    apply splitFirst_append
    intro hmem
    simp only [List.mem_append, List.mem_cons] at hmem
    rcases hmem with h | h | h
    · exact (hty _ h).1 rfl
    · revert h; decide
    · exact (hd _ h).1 rfl
  rw [h1]
  have h2 : splitFirst bSP (ty ++ bSP :: dec body.length) = some (ty, dec body.length) :=
    splitFirst_append _ _ _ (fun h => (hty _ h).2 rfl)
  simp [h2, parseDecCanon_dec]

end Swh
