import SwhVerif.Lemmas.MerkleBulk
/-!
# Merkle cache: `collect_node`, `collect`, `reset_collect` (C14 helper lemmas)
-/
namespace Swh.Merkle
variable {H : Type} {hashFn : Data → List (EntryV H) → H}

/-! ### heaps that differ only in `collected` flags -/

structure FlagOnly (h h' : Heap H) : Prop extends SameStruct h h' where
  cache : ∀ n, (h'.get n).cache = (h.get n).cache
  ent : ∀ n, (h'.get n).entriesCache = (h.get n).entriesCache
  mod : ∀ n, (h'.get n).modelCache = (h.get n).modelCache

theorem FlagOnly.refl (h : Heap H) : FlagOnly h h :=
  { SameStruct.refl h with cache := fun _ => rfl, ent := fun _ => rfl, mod := fun _ => rfl }

theorem FlagOnly.trans {a b c : Heap H} (h1 : FlagOnly a b) (h2 : FlagOnly b c) : FlagOnly a c :=
  { h1.toSameStruct.trans h2.toSameStruct with
    cache := fun n => (h2.cache n).trans (h1.cache n)
    ent := fun n => (h2.ent n).trans (h1.ent n)
    mod := fun n => (h2.mod n).trans (h1.mod n) }

theorem FlagOnly.grows0 {a b : Heap H} (f : FlagOnly a b) : Grows0 a b :=
  { f.toSameStruct with
    cache := fun n v e => by rw [f.cache]; exact e
    ent := fun n v e => by rw [f.ent]; exact e
    mod := fun n v e => by rw [f.mod]; exact e }

theorem inv_of_flagOnly {a b : Heap H} (i : Inv hashFn a) (f : FlagOnly a b) : Inv hashFn b := by
  apply inv_of_grows i f.grows0
  refine ⟨?_, ?_, ?_⟩
  · intro n v hv hn; rw [f.cache, hn] at hv; cases hv
  · intro n v hv hn; rw [f.ent, hn] at hv; cases hv
  · intro n v hv hn; rw [f.mod, hn] at hv; cases hv

theorem get_setCollected (h : Heap H) (n : Id) (b : Bool) (hn : n < h.size) (j : Id) :
    (h.modify n (fun x => { x with collected := b })).get j =
      { h.get j with collected := if j = n then b else (h.get j).collected } := by
  rw [Heap.get_modify h n _ j hn]
  by_cases e : j = n
  · subst e; simp
  · simp [e]

theorem get_clearCollected (h : Heap H) (n : Id) (j : Id) :
    (h.modify n (fun x => { x with collected := false })).get j =
      { h.get j with collected := if j = n then false else (h.get j).collected } := by
  rw [Heap.get_modify_blank h n _ j rfl]
  by_cases e : j = n
  · subst e; simp
  · simp [e]

theorem flagOnly_setCollected (h : Heap H) (n : Id) (b : Bool) (hn : n < h.size) :
    FlagOnly h (h.modify n (fun x => { x with collected := b })) := by
  have hg := get_setCollected h n b hn
  exact { SameStruct.modify h n _ (fun x => by simp) with
    cache := fun j => by rw [hg], ent := fun j => by rw [hg], mod := fun j => by rw [hg] }

theorem flagOnly_clearCollected (h : Heap H) (n : Id) :
    FlagOnly h (h.modify n (fun x => { x with collected := false })) := by
  have hg := get_clearCollected h n
  exact { SameStruct.modify h n _ (fun x => by simp) with
    cache := fun j => by rw [hg], ent := fun j => by rw [hg], mod := fun j => by rw [hg] }

/-! ### reachability -/

/-- `m` is in the sub-structure rooted at `n` -/
inductive Reach (h : Heap H) : Id → Id → Prop
  | refl (n : Id) : Reach h n n
  | step {p c m : Id} : c ∈ kids h p → Reach h c m → Reach h p m

theorem Reach.of_same {h h' : Heap H} (s : SameStruct h h') {n m : Id} (r : Reach h n m) :
    Reach h' n m := by
  induction r with
  | refl n => exact Reach.refl n
  | step hc _ ih => exact Reach.step (by rw [s.kids]; exact hc) ih

theorem Reach.cases_head {h : Heap H} {n m : Id} (r : Reach h n m) :
    m = n ∨ ∃ c ∈ kids h n, Reach h c m := by
  cases r with
  | refl => exact .inl rfl
  | step hc r' => exact .inr ⟨_, hc, r'⟩

/-! ### collection steps -/

/-- a (partial) collection: caches grow, exactly the nodes in `out` get marked and they were
unmarked before -/
structure CollStep (g g' : Heap H) (out : List Id) : Prop where
  g0 : Grows0 g g'
  flags : ∀ m, (g'.get m).collected = ((g.get m).collected || decide (m ∈ out))
  fresh : ∀ m ∈ out, (g.get m).collected = false
  nodup : out.Nodup

theorem CollStep.refl (g : Heap H) : CollStep g g [] :=
  ⟨Grows0.refl g, fun m => by simp, fun m hm => (by cases hm), List.nodup_nil⟩

theorem CollStep.trans {a b c : Heap H} {o1 o2 : List Id} (h1 : CollStep a b o1)
    (h2 : CollStep b c o2) : CollStep a c (o1 ++ o2) := by
  refine ⟨h1.g0.trans h2.g0, ?_, ?_, ?_⟩
  rotate_left 2
  · apply List.nodup_append.mpr
    refine ⟨h1.nodup, h2.nodup, ?_⟩
    intro x hx y hy e
    subst e
    have := h2.fresh x hy
    rw [h1.flags] at this
    simp [hx] at this
  · intro m
    rw [h2.flags, h1.flags]
    simp [Bool.or_assoc]
  · intro m hm
    rcases List.mem_append.mp hm with h | h
    · exact h1.fresh m h
    · have := h2.fresh m h
      rw [h1.flags] at this
      cases hc : (a.get m).collected
      · rfl
      · rw [hc] at this; simp at this

theorem CollStep.mono {a b : Heap H} {o : List Id} (h1 : CollStep a b o) (m : Id)
    (hm : (a.get m).collected = true) : (b.get m).collected = true := by
  rw [h1.flags, hm]; rfl

/-- `collect_node()` -/
theorem collectNode_spec (rank : Id → Nat) (hf : Nat) (hhf : ∀ m, rank m < hf) (g : Heap H) (n : Id)
    (i : Inv hashFn g) (rk : RankOK g rank) (hn : n < g.size) :
    Inv hashFn (collectNode hashFn hf g n).1 ∧
    CollStep g (collectNode hashFn hf g n).1 (collectNode hashFn hf g n).2 ∧
    (KInv g → KInv (collectNode hashFn hf g n).1) ∧
    ((collectNode hashFn hf g n).1.get n).collected = true := by
  unfold collectNode
  cases hc : (g.get n).collected with
  | true => exact ⟨i, CollStep.refl g, fun k => k, hc⟩
  | false =>
    simp only [Bool.false_eq_true, if_false]
    have f1 := flagOnly_setCollected g n true hn
    have hg1 := get_setCollected g n true hn
    generalize g.modify n (fun x => { x with collected := true }) = g1 at f1 hg1
    have i1 : Inv hashFn g1 := inv_of_flagOnly i f1
    obtain ⟨gd, cached⟩ := updateHash_spec rank hf false g1 n i1 (rk.of_same f1.toSameStruct)
      (hhf n) (by rw [f1.size]; exact hn)
    have g2 := gd.grows rfl
    have hflag : ∀ m, ((updateHash hashFn hf false g1 n).1.get m).collected =
        ((g.get m).collected || decide (m ∈ [n])) := by
      intro m
      rw [g2.coll, hg1]
      by_cases e : m = n
      · subst e; simp
      · simp [e]
    refine ⟨gd.inv, ⟨f1.grows0.trans g2.toGrows0, hflag, ?_, (by simp)⟩, ?_, ?_⟩
    · intro m hm
      rw [List.mem_singleton.mp hm]; exact hc
    · intro k m hm
      rw [hflag] at hm
      by_cases e : m = n
      · subst e; rw [cached]; exact Option.some_ne_none _
      · simp [e] at hm
        have := k m hm
        rw [← f1.cache] at this
        rw [g2.cache_ne m this]; exact this
    · rw [hflag]; simp

/-- **`collect()`**: with enough fuel every node of the sub-structure ends marked. -/
theorem collect_spec (rank : Id → Nat) (hf : Nat) (hhf : ∀ m, rank m < hf) :
    ∀ (f : Nat) (g : Heap H) (n : Id), Inv hashFn g → RankOK g rank → rank n < f → n < g.size →
    Inv hashFn (collect hashFn f hf g n).1 ∧
    CollStep g (collect hashFn f hf g n).1 (collect hashFn f hf g n).2 ∧
    (KInv g → KInv (collect hashFn f hf g n).1) ∧
    ∀ m, Reach g n m → ((collect hashFn f hf g n).1.get m).collected = true := by
  intro f
  induction f with
  | zero => intro g n _ _ hr _; exact absurd hr (Nat.not_lt_zero _)
  | succ f ih =>
    intro g n i rk hr hn
    obtain ⟨i1, c1, k1, m1⟩ := collectNode_spec rank hf hhf g n i rk hn
    have hfold : ∀ (l : List (Name × Id)) (acc : Heap H × List Id),
        (∀ kc ∈ l, kc.2 ∈ kids g n) → Inv hashFn acc.1 → CollStep g acc.1 acc.2 →
        (KInv g → KInv acc.1) →
        let r := l.foldl
          (fun acc kc => let r' := collect hashFn f hf acc.1 kc.2; (r'.1, acc.2 ++ r'.2)) acc
        Inv hashFn r.1 ∧ CollStep g r.1 r.2 ∧ (KInv g → KInv r.1) ∧
        (∀ m, (acc.1.get m).collected = true → (r.1.get m).collected = true) ∧
        ∀ kc ∈ l, ∀ m, Reach g kc.2 m → (r.1.get m).collected = true := by
      intro l
      induction l with
      | nil => intro acc _ ia ca ka; exact ⟨ia, ca, ka, fun _ h => h, fun _ hk => by cases hk⟩
      | cons x t iht =>
        intro acc hl ia ca ka
        have hx := hl x List.mem_cons_self
        have sa := ca.g0.toSameStruct
        obtain ⟨i2, c2, k2, m2⟩ := ih acc.1 x.2 ia (rk.of_same sa)
          (by have := rk n x.2 hx; omega) (by rw [sa.size]; exact i.bound n x.2 hx)
        obtain ⟨i3, c3, k3, mono3, m3⟩ := iht
          ((collect hashFn f hf acc.1 x.2).1, acc.2 ++ (collect hashFn f hf acc.1 x.2).2)
          (fun kc hk => hl kc (List.mem_cons_of_mem _ hk)) i2 (ca.trans c2) (fun k => k2 (ka k))
        simp only [List.foldl_cons]
        refine ⟨i3, c3, k3, fun m hm => mono3 m (c2.mono m hm), ?_⟩
        intro kc hk m hr
        rcases List.mem_cons.mp hk with rfl | hk
        · exact mono3 m (m2 m (hr.of_same sa))
        · exact m3 kc hk m hr
    simp only [collect]
    have s1 := c1.g0.toSameStruct
    obtain ⟨i4, c4, k4, mono4, m4⟩ := hfold ((collectNode hashFn hf g n).1.get n).children
      (collectNode hashFn hf g n)
      (fun kc hk => by rw [s1.children] at hk; exact mem_kids_of_mem hk) i1 c1 k1
    refine ⟨i4, c4, k4, ?_⟩
    intro m hr
    rcases hr.cases_head with rfl | ⟨c, hc, hr'⟩
    · exact mono4 m m1
    · obtain ⟨kc, hk, rfl⟩ := List.mem_map.mp hc
      exact m4 kc (by rw [s1.children]; exact hk) m hr'

/-- collecting a sub-structure whose nodes are all marked changes nothing and reports nothing -/
theorem collect_noop (hashFn : Data → List (EntryV H) → H) (hf : Nat) :
    ∀ (f : Nat) (g : Heap H) (n : Id),
    (∀ m, Reach g n m → (g.get m).collected = true) → collect hashFn f hf g n = (g, []) := by
  intro f
  induction f with
  | zero => intro g n _; rfl
  | succ f ih =>
    intro g n hall
    have hn : (g.get n).collected = true := hall n (Reach.refl n)
    have h1 : collectNode hashFn hf g n = (g, []) := by unfold collectNode; simp [hn]
    simp only [collect, h1]
    have hfold : ∀ (l : List (Name × Id)), (∀ kc ∈ l, kc.2 ∈ kids g n) →
        l.foldl (fun acc kc => let r' := collect hashFn f hf acc.1 kc.2; (r'.1, acc.2 ++ r'.2))
          (g, []) = (g, []) := by
      intro l
      induction l with
      | nil => intro _; rfl
      | cons x t iht =>
        intro hl
        simp only [List.foldl_cons]
        rw [ih g x.2 (fun m hr => hall m (Reach.step (hl x List.mem_cons_self) hr))]
        exact iht (fun kc hk => hl kc (List.mem_cons_of_mem _ hk))
    exact hfold _ (fun kc hk => mem_kids_of_mem hk)

/-- `reset_collect()`: only flags change, flags are only cleared, and with enough fuel every node
of the sub-structure ends unmarked -/
theorem resetCollect_spec (rank : Id → Nat) :
    ∀ (f : Nat) (g : Heap H) (n : Id), RankOK g rank → rank n < f →
    FlagOnly g (resetCollect f g n) ∧
    (∀ m, ((resetCollect f g n).get m).collected = true → (g.get m).collected = true) ∧
    ∀ m, Reach g n m → ((resetCollect f g n).get m).collected = false := by
  intro f
  induction f with
  | zero => intro g n _ hr; exact absurd hr (Nat.not_lt_zero _)
  | succ f ih =>
    intro g n rk hr
    have f1 := flagOnly_clearCollected g n
    have hg1 := get_clearCollected g n
    simp only [resetCollect]
    generalize g.modify n (fun x => { x with collected := false }) = g1 at f1 hg1
    have hfold : ∀ (l : List (Name × Id)) (a : Heap H), (∀ kc ∈ l, kc.2 ∈ kids g n) →
        FlagOnly g a → (∀ m, (a.get m).collected = true → (g.get m).collected = true) →
        let r := l.foldl (fun g kc => resetCollect f g kc.2) a
        FlagOnly g r ∧ (∀ m, (r.get m).collected = true → (a.get m).collected = true) ∧
        ∀ kc ∈ l, ∀ m, Reach g kc.2 m → (r.get m).collected = false := by
      intro l
      induction l with
      | nil => intro a _ fa _; exact ⟨fa, fun _ h => h, fun _ hk => by cases hk⟩
      | cons x t iht =>
        intro a hl fa ma
        have hx := hl x List.mem_cons_self
        obtain ⟨f2, mono2, m2⟩ := ih a x.2 (rk.of_same fa.toSameStruct)
          (by have := rk n x.2 hx; omega)
        obtain ⟨f3, mono3, m3⟩ := iht (resetCollect f a x.2)
          (fun kc hk => hl kc (List.mem_cons_of_mem _ hk)) (fa.trans f2)
          (fun m hm => ma m (mono2 m hm))
        simp only [List.foldl_cons]
        refine ⟨f3, fun m hm => mono2 m (mono3 m hm), ?_⟩
        intro kc hk m hrm
        rcases List.mem_cons.mp hk with rfl | hk
        · have := m2 m (hrm.of_same fa.toSameStruct)
          cases hc : ((List.foldl (fun g kc => resetCollect f g kc.2)
              (resetCollect f a kc.2) t).get m).collected
          · rfl
          · rw [mono3 m hc] at this; cases this
        · exact m3 kc hk m hrm
    have mono1 : ∀ m, (g1.get m).collected = true → (g.get m).collected = true := by
      intro m hm
      rw [hg1] at hm
      by_cases e : m = n
      · simp [e] at hm
      · simpa [e] using hm
    obtain ⟨f4, mono4, m4⟩ := hfold (g1.get n).children g1
      (fun kc hk => by rw [f1.children] at hk; exact mem_kids_of_mem hk) f1 mono1
    refine ⟨f4, fun m hm => mono1 m (mono4 m hm), ?_⟩
    intro m hrm
    rcases hrm.cases_head with rfl | ⟨c, hc, hr'⟩
    · cases hcc : ((List.foldl (fun g kc => resetCollect f g kc.2) g1 (g1.get m).children).get
          m).collected
      · rfl
      · have := mono4 m hcc
        rw [hg1] at this
        simp at this
    · obtain ⟨kc, hk, rfl⟩ := List.mem_map.mp hc
      exact m4 kc (by rw [f1.children]; exact hk) m hr'

/-- Re-hashing a node that has a cached hash (what `ret.update(child.collect())` and the set
insertion do to nodes that were hashed when first put into a set) changes nothing: this is why
`collect` in the model does not mention it. -/
theorem rehash_noop (hashFn : Data → List (EntryV H) → H) (h : Heap H) (n : Id) (v : H)
    (hv : (h.get n).cache = some v) : hashProp hashFn h n = (h, v) := by
  simp [hashProp, topFuel, updateHash, hv]

/-- after a collection every returned node has a cached hash, so the re-hashing is a no-op -/
theorem collected_out_cached {g g' : Heap H} {out : List Id} (c : CollStep g g' out)
    (k : KInv g') (m : Id) (hm : m ∈ out) : (g'.get m).cache ≠ none := by
  apply k
  rw [c.flags]; simp [hm]

end Swh.Merkle
