import SwhVerif.Lemmas.MerkleBase
/-!
# Merkle cache: the invariant `Inv`, its preservation by `invalidate` and by cache fills
(C10/C14 helper lemmas, part 2)
-/
namespace Swh.Merkle
variable {H : Type}

/-! ### values computed from the children's cached hashes -/

/-- the entries of the children in `l` that currently have a cached hash -/
def entVals (h : Heap H) (l : List (Name × Id)) : List (EntryV H) :=
  l.filterMap (fun kc => (h.get kc.2).cache.map
    (fun v => ⟨kc.1, (h.get kc.2).isDir, (h.get kc.2).data, v⟩))

/-- value of `Directory.entries` / of the `to_model()` tuple from the cached child hashes -/
def dirEntries (h : Heap H) (n : Id) : List (EntryV H) := sortE (entVals h (h.get n).children)

/-- the `(name, hash)` list the hash of `n` is computed from -/
def hashKids (h : Heap H) (n : Id) : List (EntryV H) :=
  (if (h.get n).isDir then dirEntries h n else entVals h (h.get n).children)

def kidsCached (h : Heap H) (n : Id) : Prop := ∀ c ∈ kids h n, (h.get c).cache ≠ none

theorem mem_kids_of_mem {h : Heap H} {n : Id} {kc : Name × Id} (hm : kc ∈ (h.get n).children) :
    kc.2 ∈ kids h n := List.mem_map.mpr ⟨kc, hm, rfl⟩

theorem entVals_congr (h h' : Heap H) (l : List (Name × Id))
    (hc : ∀ kc ∈ l, (h'.get kc.2).cache = (h.get kc.2).cache ∧
      (h'.get kc.2).isDir = (h.get kc.2).isDir ∧ (h'.get kc.2).data = (h.get kc.2).data) :
    entVals h' l = entVals h l := by
  unfold entVals
  induction l with
  | nil => rfl
  | cons x t ih =>
    obtain ⟨e1, e2, e3⟩ := hc x List.mem_cons_self
    simp only [List.filterMap_cons]
    rw [e1, e2, e3, ih (fun kc hk => hc kc (List.mem_cons_of_mem _ hk))]

/-- if the structure is the same and the hashes of the children of `n` are the same, the values
computed for `n` are the same -/
theorem vals_eq {h h' : Heap H} (s : SameStruct h h') (n : Id)
    (hc : ∀ c ∈ kids h n, (h'.get c).cache = (h.get c).cache) :
    entVals h' (h'.get n).children = entVals h (h.get n).children ∧
    dirEntries h' n = dirEntries h n ∧ hashKids h' n = hashKids h n := by
  have e : entVals h' (h'.get n).children = entVals h (h.get n).children := by
    rw [s.children]
    apply entVals_congr
    intro kc hk
    exact ⟨hc kc.2 (mem_kids_of_mem hk), s.isDir _, s.data _⟩
  refine ⟨e, ?_, ?_⟩
  · unfold dirEntries; rw [e]
  · unfold hashKids dirEntries; rw [e, s.isDir]

/-! ### the invariant -/

variable (hashFn : Data → List (EntryV H) → H)

/-- The invariant of C10 (and the heap part of C14's).
* `closure` (I1): a node holding any cache (hash, entries, model) has only cached children;
* `value` (I0): a cached hash is `hashFn` of the data and the children's cached hashes;
* `entV`, `modV`, `nondir` (I3): derived caches are present only when consistent;
* `links` (I2): every edge `p → c`, with multiplicity, has a back-link in `parents c`
  (inclusion: replaced children keep a spare back-link);
* `bound`: children are allocated nodes. -/
structure Inv (h : Heap H) : Prop where
  closure : ∀ p c, c ∈ kids h p → (h.get p).hasAny = true → (h.get c).cache ≠ none
  value : ∀ n v, (h.get n).cache = some v → v = hashFn (h.get n).data (hashKids h n)
  entV : ∀ n e, (h.get n).entriesCache = some e → e = dirEntries h n
  modV : ∀ n e, (h.get n).modelCache = some e → e = dirEntries h n
  nondir : ∀ n, (h.get n).isDir = false →
    (h.get n).entriesCache = none ∧ (h.get n).modelCache = none
  links : ∀ p c, (kids h p).count c ≤ ((h.get c).parents).count p
  bound : ∀ p c, c ∈ kids h p → c < h.size

variable {hashFn}

/-- (K), the additional invariant of C14: a collected node has a cached hash -/
def KInv (h : Heap H) : Prop := ∀ n, (h.get n).collected = true → (h.get n).cache ≠ none

theorem Inv.backLinks {h : Heap H} (i : Inv hashFn h) : BackLinks h := by
  intro p c hc
  have h1 : 0 < (kids h p).count c := List.count_pos_iff.mpr hc
  have h2 := i.links p c
  exact List.count_pos_iff.mp (Nat.lt_of_lt_of_le h1 h2)

theorem Inv.kids_cached {h : Heap H} (i : Inv hashFn h) (n : Id)
    (ha : (h.get n).hasAny = true) : kidsCached h n := fun c hc => i.closure n c hc ha

theorem inv_empty : Inv hashFn (Heap.empty : Heap H) := by
  have hb : ∀ n, (Heap.empty : Heap H).get n = Node.blank := Heap.get_empty
  refine ⟨?_, ?_, ?_, ?_, ?_, ?_, ?_⟩
  · intro p c hc; simp [kids, hb, Node.blank] at hc
  · intro n v hv; simp [hb, Node.blank] at hv
  · intro n e hv; simp [hb, Node.blank] at hv
  · intro n e hv; simp [hb, Node.blank] at hv
  · intro n _; simp [hb, Node.blank]
  · intro p c; simp [kids, hb, Node.blank]
  · intro p c hc; simp [kids, hb, Node.blank] at hc

/-- `NoNewViolation` steps preserve the invariant. -/
theorem inv_of_nnv {h h' : Heap H} (i : Inv hashFn h) (nv : NNV h h') : Inv hashFn h' := by
  have s := nv.toSameStruct
  have hclosure : ∀ p c, c ∈ kids h' p → (h'.get p).hasAny = true → (h'.get c).cache ≠ none := by
    intro p c hc hp hn
    rw [s.kids] at hc
    exact i.closure p c hc (nv.toShrinks.hasAny p hp) (nv.edge p c hc hp hn)
  have hstable : ∀ n, (h'.get n).hasAny = true →
      ∀ c ∈ kids h n, (h'.get c).cache = (h.get c).cache := by
    intro n hn c hc
    rcases nv.cache c with e | e
    · exact e
    · exact absurd e (hclosure n c (by rw [s.kids]; exact hc) hn)
  refine ⟨hclosure, ?_, ?_, ?_, ?_, ?_, ?_⟩
  · intro n v hv
    have hany : (h'.get n).hasAny = true := by simp [Node.hasAny, hv]
    obtain ⟨_, _, e3⟩ := vals_eq s n (hstable n hany)
    rw [e3, s.data]
    rcases nv.cache n with e | e
    · exact i.value n v (by rw [← e]; exact hv)
    · rw [e] at hv; cases hv
  · intro n e hv
    have hany : (h'.get n).hasAny = true := by simp [Node.hasAny, hv]
    obtain ⟨_, e2, _⟩ := vals_eq s n (hstable n hany)
    rw [e2]
    rcases nv.ent n with e' | e'
    · exact i.entV n e (by rw [← e']; exact hv)
    · rw [e'] at hv; cases hv
  · intro n e hv
    have hany : (h'.get n).hasAny = true := by simp [Node.hasAny, hv]
    obtain ⟨_, e2, _⟩ := vals_eq s n (hstable n hany)
    rw [e2]
    rcases nv.mod n with e' | e'
    · exact i.modV n e (by rw [← e']; exact hv)
    · rw [e'] at hv; cases hv
  · intro n hd
    rw [s.isDir] at hd
    obtain ⟨a, b⟩ := i.nondir n hd
    constructor
    · rcases nv.ent n with e | e
      · rw [e]; exact a
      · exact e
    · rcases nv.mod n with e | e
      · rw [e]; exact b
      · exact e
  · intro p c; rw [s.kids, s.parents]; exact i.links p c
  · intro p c hc; rw [s.kids] at hc; rw [s.size]; exact i.bound p c hc

theorem cachedCount_le_size (h : Heap H) : cachedCount h ≤ h.size := by
  unfold cachedCount
  have := List.countP_le_length (p := fun i => (h.get i).cache.isSome) (l := List.range h.size)
  simpa using this

/-- `invalidate_hash()` as called by the operations: invariant kept, nothing new violated, the
node ends without any cache. -/
theorem invalidateTop_spec {h : Heap H} (i : Inv hashFn h) (n : Id) :
    Inv hashFn (invalidateTop h n) ∧ NNV h (invalidateTop h n) ∧
    ((invalidateTop h n).get n).hasAny = false := by
  obtain ⟨nv, a⟩ := invalidate_nnv h.size h n i.backLinks (cachedCount_le_size h)
  exact ⟨inv_of_nnv i nv, nv, a⟩

/-! ### cache fills -/

/-- caches are only added, present ones keep their value -/
structure Grows0 (h h' : Heap H) : Prop extends SameStruct h h' where
  cache : ∀ n v, (h.get n).cache = some v → (h'.get n).cache = some v
  ent : ∀ n e, (h.get n).entriesCache = some e → (h'.get n).entriesCache = some e
  mod : ∀ n e, (h.get n).modelCache = some e → (h'.get n).modelCache = some e

/-- caches are only added, present ones keep their value; `collected` untouched -/
structure Grows (h h' : Heap H) : Prop extends Grows0 h h' where
  coll : ∀ n, (h'.get n).collected = (h.get n).collected

theorem Grows0.refl (h : Heap H) : Grows0 h h :=
  { SameStruct.refl h with
    cache := fun _ _ e => e, ent := fun _ _ e => e, mod := fun _ _ e => e }

theorem Grows0.trans {a b c : Heap H} (h1 : Grows0 a b) (h2 : Grows0 b c) : Grows0 a c :=
  { h1.toSameStruct.trans h2.toSameStruct with
    cache := fun n v e => h2.cache n v (h1.cache n v e)
    ent := fun n v e => h2.ent n v (h1.ent n v e)
    mod := fun n v e => h2.mod n v (h1.mod n v e) }

theorem Grows.refl (h : Heap H) : Grows h h :=
  { Grows0.refl h with coll := fun _ => rfl }

theorem Grows.trans {a b c : Heap H} (h1 : Grows a b) (h2 : Grows b c) : Grows a c :=
  { h1.toGrows0.trans h2.toGrows0 with coll := fun n => (h2.coll n).trans (h1.coll n) }

theorem Grows0.cache_ne {a b : Heap H} (g : Grows0 a b) (n : Id) (hn : (a.get n).cache ≠ none) :
    (b.get n).cache = (a.get n).cache := by
  cases hc : (a.get n).cache with
  | none => exact absurd hc hn
  | some v => exact g.cache n v hc

theorem Grows0.kids_cached {a b : Heap H} (g : Grows0 a b) (n : Id) (hk : kidsCached a n) :
    kidsCached b n := by
  intro c hc
  rw [g.toSameStruct.kids] at hc
  rw [g.cache_ne c (hk c hc)]; exact hk c hc

theorem Grows0.vals {a b : Heap H} (g : Grows0 a b) (n : Id) (hk : kidsCached a n) :
    entVals b (b.get n).children = entVals a (a.get n).children ∧
    dirEntries b n = dirEntries a n ∧ hashKids b n = hashKids a n :=
  Merkle.vals_eq g.toSameStruct n (fun c hc => g.cache_ne c (hk c hc))

/-- every cache that is new in `h'` holds the value computed from the (cached) children -/
structure NewOK (hashFn : Data → List (EntryV H) → H) (h h' : Heap H) : Prop where
  cache : ∀ n v, (h'.get n).cache = some v → (h.get n).cache = none →
    kidsCached h n ∧ v = hashFn (h.get n).data (hashKids h n)
  ent : ∀ n e, (h'.get n).entriesCache = some e → (h.get n).entriesCache = none →
    (h.get n).isDir = true ∧ kidsCached h n ∧ e = dirEntries h n
  mod : ∀ n e, (h'.get n).modelCache = some e → (h.get n).modelCache = none →
    (h.get n).isDir = true ∧ kidsCached h n ∧ e = dirEntries h n

theorem inv_of_grows {h h' : Heap H} (i : Inv hashFn h) (g : Grows0 h h') (nw : NewOK hashFn h h') :
    Inv hashFn h' := by
  have s := g.toSameStruct
  have hk : ∀ n, (h'.get n).hasAny = true → kidsCached h n := by
    intro n hn
    simp only [Node.hasAny, Bool.or_eq_true] at hn
    rcases hn with (hn | hn) | hn
    · cases hc : (h.get n).cache with
      | none =>
        obtain ⟨v, hv⟩ := Option.isSome_iff_exists.mp hn
        exact (nw.cache n v hv hc).1
      | some v => exact i.kids_cached n (by simp [Node.hasAny, hc])
    · cases hc : (h.get n).entriesCache with
      | none =>
        obtain ⟨v, hv⟩ := Option.isSome_iff_exists.mp hn
        exact (nw.ent n v hv hc).2.1
      | some v => exact i.kids_cached n (by simp [Node.hasAny, hc])
    · cases hc : (h.get n).modelCache with
      | none =>
        obtain ⟨v, hv⟩ := Option.isSome_iff_exists.mp hn
        exact (nw.mod n v hv hc).2.1
      | some v => exact i.kids_cached n (by simp [Node.hasAny, hc])
  refine ⟨?_, ?_, ?_, ?_, ?_, ?_, ?_⟩
  · intro p c hc hp
    exact g.kids_cached p (hk p hp) c hc
  · intro n v hv
    have hkn := hk n (by simp [Node.hasAny, hv])
    obtain ⟨_, _, e3⟩ := g.vals n hkn
    rw [e3, s.data]
    cases hc : (h.get n).cache with
    | none => exact (nw.cache n v hv hc).2
    | some v0 =>
      have := g.cache n v0 hc
      rw [hv] at this
      cases this
      exact i.value n v hc
  · intro n e hv
    have hkn := hk n (by simp [Node.hasAny, hv])
    obtain ⟨_, e2, _⟩ := g.vals n hkn
    rw [e2]
    cases hc : (h.get n).entriesCache with
    | none => exact (nw.ent n e hv hc).2.2
    | some v0 =>
      have := g.ent n v0 hc
      rw [hv] at this
      cases this
      exact i.entV n e hc
  · intro n e hv
    have hkn := hk n (by simp [Node.hasAny, hv])
    obtain ⟨_, e2, _⟩ := g.vals n hkn
    rw [e2]
    cases hc : (h.get n).modelCache with
    | none => exact (nw.mod n e hv hc).2.2
    | some v0 =>
      have := g.mod n v0 hc
      rw [hv] at this
      cases this
      exact i.modV n e hc
  · intro n hd
    rw [s.isDir] at hd
    obtain ⟨a, b⟩ := i.nondir n hd
    constructor
    · cases hc : (h'.get n).entriesCache with
      | none => rfl
      | some e => have := (nw.ent n e hc a).1; rw [hd] at this; cases this
    · cases hc : (h'.get n).modelCache with
      | none => rfl
      | some e => have := (nw.mod n e hc b).1; rw [hd] at this; cases this
  · intro p c; rw [s.kids, s.parents]; exact i.links p c
  · intro p c hc; rw [s.kids] at hc; rw [s.size]; exact i.bound p c hc

/-- `self.__hash = <hash of data and children's cached hashes>` -/
theorem fill_cache {h : Heap H} (i : Inv hashFn h) (n : Id) (hn : n < h.size)
    (hk : kidsCached h n) (v : H) (hv : v = hashFn (h.get n).data (hashKids h n)) :
    let h' := h.modify n (fun x => { x with cache := some v })
    Inv hashFn h' ∧ Grows h h' ∧ (h'.get n).cache = some v := by
  intro h'
  have hg : ∀ j, h'.get j = if j = n then { h.get n with cache := some v } else h.get j :=
    fun j => Heap.get_modify h n _ j hn
  have g : Grows h h' := by
    refine { SameStruct.modify h n _ (fun x => by simp) with
      cache := ?_, ent := ?_, mod := ?_, coll := ?_ }
    · intro j w hw
      rw [hg]
      by_cases e : j = n
      · subst e
        have := i.value j w hw
        simp [hv, this]
      · simp [e, hw]
    · intro j w hw; rw [hg]; by_cases e : j = n <;> simp [e, hw]; subst e; exact hw
    · intro j w hw; rw [hg]; by_cases e : j = n <;> simp [e, hw]; subst e; exact hw
    · intro j; rw [hg]; by_cases e : j = n <;> simp [e]
  have nw : NewOK hashFn h h' := by
    refine ⟨?_, ?_, ?_⟩
    · intro j w hw hnone
      rw [hg] at hw
      by_cases e : j = n
      · subst e; simp at hw; subst hw; exact ⟨hk, hv⟩
      · simp [e] at hw; rw [hw] at hnone; cases hnone
    · intro j w hw hnone
      rw [hg] at hw
      by_cases e : j = n
      · subst e; simp at hw; rw [hw] at hnone; cases hnone
      · simp [e] at hw; rw [hw] at hnone; cases hnone
    · intro j w hw hnone
      rw [hg] at hw
      by_cases e : j = n
      · subst e; simp at hw; rw [hw] at hnone; cases hnone
      · simp [e] at hw; rw [hw] at hnone; cases hnone
  refine ⟨inv_of_grows i g.toGrows0 nw, g, ?_⟩
  rw [hg]; simp

/-- `self.__model_object = <sorted entry tuple>` -/
theorem fill_model {h : Heap H} (i : Inv hashFn h) (n : Id) (hn : n < h.size)
    (hd : (h.get n).isDir = true) (hk : kidsCached h n) (m : List (EntryV H))
    (hm : m = dirEntries h n) :
    let h' := h.modify n (fun x => { x with modelCache := some m })
    Inv hashFn h' ∧ Grows h h' ∧ dirEntries h' n = m := by
  intro h'
  have hg : ∀ j, h'.get j = if j = n then { h.get n with modelCache := some m } else h.get j :=
    fun j => Heap.get_modify h n _ j hn
  have g : Grows h h' := by
    refine { SameStruct.modify h n _ (fun x => by simp) with
      cache := ?_, ent := ?_, mod := ?_, coll := ?_ }
    · intro j w hw; rw [hg]; by_cases e : j = n <;> simp [e, hw]; subst e; exact hw
    · intro j w hw; rw [hg]; by_cases e : j = n <;> simp [e, hw]; subst e; exact hw
    · intro j w hw
      rw [hg]
      by_cases e : j = n
      · subst e
        have := i.modV j w hw
        simp [hm, this]
      · simp [e, hw]
    · intro j; rw [hg]; by_cases e : j = n <;> simp [e]
  have nw : NewOK hashFn h h' := by
    refine ⟨?_, ?_, ?_⟩
    · intro j w hw hnone
      rw [hg] at hw
      by_cases e : j = n
      · subst e; simp at hw; rw [hw] at hnone; cases hnone
      · simp [e] at hw; rw [hw] at hnone; cases hnone
    · intro j w hw hnone
      rw [hg] at hw
      by_cases e : j = n
      · subst e; simp at hw; rw [hw] at hnone; cases hnone
      · simp [e] at hw; rw [hw] at hnone; cases hnone
    · intro j w hw hnone
      rw [hg] at hw
      by_cases e : j = n
      · subst e; simp at hw; subst hw; exact ⟨hd, hk, hm⟩
      · simp [e] at hw; rw [hw] at hnone; cases hnone
  refine ⟨inv_of_grows i g.toGrows0 nw, g, ?_⟩
  rw [(g.vals n hk).2.1, hm]

/-- `self.__entries = <sorted entry list>` -/
theorem fill_entries {h : Heap H} (i : Inv hashFn h) (n : Id) (hn : n < h.size)
    (hd : (h.get n).isDir = true) (hk : kidsCached h n) (m : List (EntryV H))
    (hm : m = dirEntries h n) :
    let h' := h.modify n (fun x => { x with entriesCache := some m })
    Inv hashFn h' ∧ Grows h h' ∧ dirEntries h' n = m := by
  intro h'
  have hg : ∀ j, h'.get j = if j = n then { h.get n with entriesCache := some m } else h.get j :=
    fun j => Heap.get_modify h n _ j hn
  have g : Grows h h' := by
    refine { SameStruct.modify h n _ (fun x => by simp) with
      cache := ?_, ent := ?_, mod := ?_, coll := ?_ }
    · intro j w hw; rw [hg]; by_cases e : j = n <;> simp [e, hw]; subst e; exact hw
    · intro j w hw
      rw [hg]
      by_cases e : j = n
      · subst e
        have := i.entV j w hw
        simp [hm, this]
      · simp [e, hw]
    · intro j w hw; rw [hg]; by_cases e : j = n <;> simp [e, hw]; subst e; exact hw
    · intro j; rw [hg]; by_cases e : j = n <;> simp [e]
  have nw : NewOK hashFn h h' := by
    refine ⟨?_, ?_, ?_⟩
    · intro j w hw hnone
      rw [hg] at hw
      by_cases e : j = n
      · subst e; simp at hw; rw [hw] at hnone; cases hnone
      · simp [e] at hw; rw [hw] at hnone; cases hnone
    · intro j w hw hnone
      rw [hg] at hw
      by_cases e : j = n
      · subst e; simp at hw; subst hw; exact ⟨hd, hk, hm⟩
      · simp [e] at hw; rw [hw] at hnone; cases hnone
    · intro j w hw hnone
      rw [hg] at hw
      by_cases e : j = n
      · subst e; simp at hw; rw [hw] at hnone; cases hnone
      · simp [e] at hw; rw [hw] at hnone; cases hnone
  refine ⟨inv_of_grows i g.toGrows0 nw, g, ?_⟩
  rw [(g.vals n hk).2.1, hm]

end Swh.Merkle
