import SwhVerif.Lemmas.FsPerm
/-! Listing-order independence survives the filters that look at listings through their
    emptiness: pruning related trees gives related trees. -/
namespace Swh.Fs
open Swh

/-- the filter keeps the entry, shown what is left of it after pruning -/
def keepEntry (f : PathFilter) (n : Bytes) (c : FsNode) : Bool :=
  match c with
  | .dir _ => f n (some (names (pruneBy f c).entries))
  | _ => f n none

def pruneEntry (f : PathFilter) (p : Bytes × FsNode) : Option (Bytes × FsNode) :=
  if keepEntry f p.1 p.2 then some (p.1, pruneBy f p.2) else none

theorem pruneByL_eq_filterMap (f : PathFilter) (es : List (Bytes × FsNode)) :
    pruneByL f es = es.filterMap (pruneEntry f) := by
  induction es with
  | nil => rfl
  | cons p r ih =>
    obtain ⟨n, c⟩ := p
    cases c with
    | dir ces =>
      rw [pruneByL_dir, List.filterMap_cons, ← ih]
      by_cases h : f n (some (names (pruneByL f ces))) = true
      · have : pruneEntry f (n, .dir ces) = some (n, .dir (pruneByL f ces)) := by
          simp [pruneEntry, keepEntry, pruneBy, FsNode.entries, h]
        rw [this, if_pos h]
      · have : pruneEntry f (n, .dir ces) = none := by
          simp [pruneEntry, keepEntry, pruneBy, FsNode.entries, h]
        rw [this, if_neg h]
    | file m d =>
      rw [List.filterMap_cons, ← ih]
      by_cases h : f n none = true <;> simp [pruneByL, pruneEntry, keepEntry, pruneBy, h]
    | symlink t =>
      rw [List.filterMap_cons, ← ih]
      by_cases h : f n none = true <;> simp [pruneByL, pruneEntry, keepEntry, pruneBy, h]
    | special m =>
      rw [List.filterMap_cons, ← ih]
      by_cases h : f n none = true <;> simp [pruneByL, pruneEntry, keepEntry, pruneBy, h]

theorem mem_pruneByL (f : PathFilter) (es : List (Bytes × FsNode)) (x : Bytes × FsNode) :
    x ∈ pruneByL f es ↔ ∃ c, (x.1, c) ∈ es ∧ keepEntry f x.1 c = true ∧ x.2 = pruneBy f c := by
  rw [pruneByL_eq_filterMap, List.mem_filterMap]
  constructor
  · rintro ⟨⟨n, c⟩, hm, hp⟩
    unfold pruneEntry at hp
    by_cases hk : keepEntry f n c = true
    · simp only [hk, if_true, Option.some.injEq] at hp
      subst hp; exact ⟨c, hm, hk, rfl⟩
    · simp [hk] at hp
  · rintro ⟨c, hm, hk, hx⟩
    refine ⟨(x.1, c), hm, ?_⟩
    unfold pruneEntry
    simp only [hk, if_true]
    rw [← hx]

theorem names_pruneByL (f : PathFilter) (es : List (Bytes × FsNode)) :
    names (pruneByL f es) = (es.filter (fun p => keepEntry f p.1 p.2)).map (·.1) := by
  rw [pruneByL_eq_filterMap]
  induction es with
  | nil => rfl
  | cons p r ih =>
    by_cases h : keepEntry f p.1 p.2 = true
    · simp [List.filterMap_cons, pruneEntry, h, List.filter_cons, names] at ih ⊢; exact ih
    · simp [List.filterMap_cons, pruneEntry, h, List.filter_cons, names] at ih ⊢; exact ih

theorem names_pruneByL_sub (f : PathFilter) (es : List (Bytes × FsNode)) :
    (names (pruneByL f es)).Sublist (names es) := by
  rw [names_pruneByL]
  exact List.Sublist.map _ List.filter_sublist

/-- pruning keeps a tree well formed -/
theorem wf_pruneBy (f : PathFilter) : ∀ t, WfFs t → WfFs (pruneBy f t) := by
  apply FsNode.induct
  · intro m d h; exact h
  · intro t h; exact h
  · intro m h; exact h
  · intro es ih hw
    have hw' := (WfFs_dir es).mp hw
    simp only [pruneBy]
    rw [WfFs_dir]
    refine ⟨fun n hn => hw'.1 n ((names_pruneByL_sub f es).subset hn),
      (names_pruneByL_sub f es).nodup hw'.2.1, ?_⟩
    intro x hx
    obtain ⟨c, hc, _, he⟩ := (mem_pruneByL f es x).mp hx
    rw [he]
    exact ih (x.1, c) hc (hw'.2.2 _ hc)

theorem filter_keep_names (f : PathFilter) (es : List (Bytes × FsNode)) (hn : (names es).Nodup)
    (k : Bytes → Bool) (hk : ∀ p ∈ es, keepEntry f p.1 p.2 = k p.1) :
    (es.filter (fun p => keepEntry f p.1 p.2)).map (·.1) = (names es).filter k := by
  induction es with
  | nil => rfl
  | cons p r ih =>
    simp only [names_cons, List.nodup_cons] at hn
    have := hk p (by simp)
    simp only [List.filter_cons, this, names_cons]
    have ih' := ih hn.2 (fun q hq => hk q (by simp [hq]))
    by_cases h : k p.1 = true <;> simp [h, ih']

/-- **pruning related trees gives related trees** -/
theorem FsPerm.pruneBy (f : PathFilter) (hf : EmptinessOnly f) {t t' : FsNode} (h : FsPerm t t') :
    WfFs t → FsPerm (Swh.Fs.pruneBy f t) (Swh.Fs.pruneBy f t') := by
  induction h with
  | file m d => intro _; exact FsPerm.file m d
  | symlink x => intro _; exact FsPerm.symlink x
  | special m => intro _; exact FsPerm.special m
  | dir es es' hp hch ih =>
    intro hw
    have hw' := (WfFs_dir es).mp hw
    have hwt' : WfFs (.dir es') := (FsPerm.dir es es' hp hch).wf hw
    have hw2 := (WfFs_dir es').mp hwt'
    -- same-named children are kept or dropped together
    have hkeep : ∀ n c c', (n, c) ∈ es → (n, c') ∈ es' → keepEntry f n c = keepEntry f n c' := by
      intro n c c' h1 h2
      have hrel := ih n c c' h1 h2 (hw'.2.2 _ h1)
      have horig := hch n c c' h1 h2
      cases horig with
      | file m d => rfl
      | symlink x => rfl
      | special m => rfl
      | dir ces ces' hpn _ =>
        simp only [keepEntry]
        simp only [Swh.Fs.pruneBy] at hrel ⊢
        cases hrel with
        | dir _ _ hpn' _ =>
          simp only [FsNode.entries]
          have hiff : names (pruneByL f ces) = [] ↔ names (pruneByL f ces') = [] := by
            constructor
            · intro e; rw [e] at hpn'; exact hpn'.symm.eq_nil
            · intro e; rw [e] at hpn'; exact hpn'.eq_nil
          cases h1 : f n (some (names (pruneByL f ces))) <;>
            cases h2 : f n (some (names (pruneByL f ces'))) <;> try rfl
          · exact absurd (hf n _ _ hiff.mp h2) (by simp [h1])
          · exact absurd (hf n _ _ hiff.mpr h1) (by simp [h2])
    simp only [Swh.Fs.pruneBy]
    refine FsPerm.dir _ _ ?_ ?_
    · -- names
      let k : Bytes → Bool := fun n =>
        match assoc n es with
        | some c => keepEntry f n c
        | none => false
      have hk1 : ∀ p ∈ es, keepEntry f p.1 p.2 = k p.1 := by
        intro p hp'
        simp only [k, assoc_of_mem p.1 es p.2 hw'.2.1 hp']
      have hk2 : ∀ p ∈ es', keepEntry f p.1 p.2 = k p.1 := by
        intro p hp'
        obtain ⟨c, hc⟩ := exists_of_mem_names (hp.mem_iff.mpr (mem_names_of_mem (n := p.1) (c := p.2) hp'))
        simp only [k, assoc_of_mem p.1 es c hw'.2.1 hc]
        exact (hkeep p.1 c p.2 hc hp').symm
      rw [names_pruneByL, names_pruneByL, filter_keep_names f es hw'.2.1 k hk1,
        filter_keep_names f es' hw2.2.1 k hk2]
      exact hp.filter k
    · intro n d d' hd hd'
      obtain ⟨c, hc, _, rfl⟩ := (mem_pruneByL f es (n, d)).mp hd
      obtain ⟨c', hc', _, rfl⟩ := (mem_pruneByL f es' (n, d')).mp hd'
      exact ih n c c' hc hc' (hw'.2.2 _ hc)

end Swh.Fs
