import SwhVerif.Lemmas.SwhidUtf8
/-! Percent-coding: `unquote_to_bytes ∘ quote_from_bytes = id`, `unquote ∘ escapeOrigin = id`. -/
namespace Swh

/-! ### scanning view of `unquoteBytes` -/

theorem unquoteBytes_nil : unquoteBytes [] = [] := by
  simp [unquoteBytes, splitOnL]

theorem unquoteBytes_cons_ne (x : Byte) (bs : Bytes) (h : x ≠ bPct) :
    unquoteBytes (x :: bs) = x :: unquoteBytes bs := by
  simp [unquoteBytes, splitOnL, h]

theorem hexVal_ne_pct (b : Byte) (x : Nat) (h : hexVal b = some x) : b ≠ bPct := by
  intro e; subst e; simp [hexVal, bPct] at h

theorem unquoteBytes_pct (h1 h2 : Byte) (x y : Nat) (bs : Bytes)
    (hx : hexVal h1 = some x) (hy : hexVal h2 = some y) :
    unquoteBytes (bPct :: h1 :: h2 :: bs) = UInt8.ofNat (x * 16 + y) :: unquoteBytes bs := by
  have n1 := hexVal_ne_pct h1 x hx
  have n2 := hexVal_ne_pct h2 y hy
  simp [unquoteBytes, splitOnL, n1, n2, unquotePiece, hx, hy]

/-! ### quote_from_bytes -/

theorem hexVal_hexUpper : ∀ d : Fin 16,
    hexVal (UInt8.ofNat (hexUpperDigit d.val).toNat) = some d.val := by decide

theorem hexUpper_ascii : ∀ d : Fin 16, isAsciiC (hexUpperDigit d.val) = true := by decide

theorem hexUpper_props : ∀ d : Fin 16,
    hexUpperDigit d.val ≠ ';' ∧ isPySpace (hexUpperDigit d.val) = false := by decide

theorem safe_ne_pct (b : Byte) (h : isSafeByte b = true) : b ≠ bPct := by
  intro e; subst e; simp [isSafeByte, bPct] at h

theorem safe_lt (b : Byte) (h : isSafeByte b = true) : b.toNat < 128 := by
  simp [isSafeByte] at h; omega

theorem asciiBytes_append (a b : Str) : asciiBytes (a ++ b) = asciiBytes a ++ asciiBytes b := by
  simp [asciiBytes]

theorem unquoteBytes_quoteByte (b : Byte) (rest : Bytes) :
    unquoteBytes (asciiBytes (quoteByte b) ++ rest) = b :: unquoteBytes rest := by
  unfold quoteByte
  split
  · rename_i hs
    simp only [asciiBytes, List.map_cons, List.map_nil, ofNat_byteChar, List.cons_append,
      List.nil_append]
    exact unquoteBytes_cons_ne b rest (safe_ne_pct b hs)
  · have hb := UInt8.toNat_lt b
    have e1 := hexVal_hexUpper ⟨b.toNat / 16, by omega⟩
    have e2 := hexVal_hexUpper ⟨b.toNat % 16, by omega⟩
    simp only [asciiBytes, List.map_cons, List.map_nil, List.cons_append, List.nil_append]
    have : UInt8.ofNat '%'.toNat = bPct := by decide
    rw [this, unquoteBytes_pct _ _ _ _ rest e1 e2]
    have : b.toNat / 16 * 16 + b.toNat % 16 = b.toNat := by omega
    simp only [this]
    rw [UInt8.ofNat_toNat]

theorem unquoteBytes_quote_append (b rest : Bytes) :
    unquoteBytes (asciiBytes (quoteFromBytes b) ++ rest) = b ++ unquoteBytes rest := by
  induction b with
  | nil => rfl
  | cons x xs ih =>
    simp only [quoteFromBytes, List.flatMap_cons, asciiBytes_append, List.append_assoc] at ih ⊢
    rw [unquoteBytes_quoteByte, ih]; rfl

theorem quoteByte_ascii (b : Byte) : ∀ c ∈ quoteByte b, isAsciiC c = true := by
  intro c hc
  unfold quoteByte at hc
  have hb := UInt8.toNat_lt b
  split at hc
  · rename_i hs
    simp only [List.mem_singleton] at hc
    subst hc
    simp only [isAsciiC, byteChar_toNat, decide_eq_true_eq]
    exact safe_lt b hs
  · simp only [List.mem_cons, List.not_mem_nil, or_false] at hc
    rcases hc with rfl | rfl | rfl
    · decide
    · exact hexUpper_ascii ⟨b.toNat / 16, by omega⟩
    · exact hexUpper_ascii ⟨b.toNat % 16, by omega⟩

theorem quoteFromBytes_ascii (b : Bytes) : ∀ c ∈ quoteFromBytes b, isAsciiC c = true := by
  intro c hc
  simp only [quoteFromBytes, List.mem_flatMap] at hc
  obtain ⟨x, _, hx⟩ := hc
  exact quoteByte_ascii x c hx

/-- **`unquote_to_bytes(quote_from_bytes(b)) == b`** -/
theorem unquoteToBytes_quoteFromBytes (b : Bytes) : unquoteToBytes (quoteFromBytes b) = b := by
  unfold unquoteToBytes
  rw [utf8Enc_ascii _ (quoteFromBytes_ascii b)]
  have := unquoteBytes_quote_append b []
  simpa [unquoteBytes_nil] using this

/-! ### escapeOrigin as a per-character map -/

/-- what `escapeOrigin` does to one character -/
def escChar (c : Char) : Str :=
  if c = '%' then ['%', '2', '5'] else if c = ';' then ['%', '3', 'B']
  else if isPySpace c then pyQuote [c] else [c]

theorem escapeOrigin_eq (s : Str) : escapeOrigin s = s.flatMap escChar := by
  unfold escapeOrigin quoteSpace replaceChar
  rw [List.flatMap_assoc, List.flatMap_assoc]
  congr 1
  funext c
  unfold escChar
  by_cases h1 : c = '%'
  · subst h1; decide
  · by_cases h2 : c = ';'
    · subst h2; decide
    · simp [h1, h2]

/-- ASCII or whitespace: the characters whose escaped form is pure ASCII -/
def softC (c : Char) : Bool := isAsciiC c || isPySpace c

theorem escChar_ascii (c : Char) (h : softC c = true) : ∀ x ∈ escChar c, isAsciiC x = true := by
  unfold escChar
  split
  · decide
  · split
    · decide
    · split
      · exact quoteFromBytes_ascii _
      · rename_i h3
        simp only [softC, Bool.or_eq_true] at h
        rcases h with h | h
        · simpa using h
        · exact absurd h h3

theorem escChar_not_soft (c : Char) (h : softC c = false) : escChar c = [c] ∧ isAsciiC c = false := by
  simp only [softC, Bool.or_eq_false_iff] at h
  have h1 : c ≠ '%' := by rintro rfl; simp [isAsciiC] at h
  have h2 : c ≠ ';' := by rintro rfl; simp [isAsciiC] at h
  simp [escChar, h1, h2, h.2, h.1]

theorem unquoteBytes_escChar (c : Char) (h : softC c = true) (rest : Bytes) :
    unquoteBytes (asciiBytes (escChar c) ++ rest) = utf8EncChar c ++ unquoteBytes rest := by
  unfold escChar
  split
  · rename_i h1; subst h1
    have e1 : hexVal (UInt8.ofNat '2'.toNat) = some 2 := by decide
    have e2 : hexVal (UInt8.ofNat '5'.toNat) = some 5 := by decide
    have e0 : UInt8.ofNat '%'.toNat = bPct := by decide
    simp only [asciiBytes, List.map_cons, List.map_nil, List.cons_append, List.nil_append]
    rw [e0, unquoteBytes_pct _ _ _ _ rest e1 e2]
    rfl
  · split
    · rename_i h2; subst h2
      have e1 : hexVal (UInt8.ofNat '3'.toNat) = some 3 := by decide
      have e2 : hexVal (UInt8.ofNat 'B'.toNat) = some 11 := by decide
      have e0 : UInt8.ofNat '%'.toNat = bPct := by decide
      simp only [asciiBytes, List.map_cons, List.map_nil, List.cons_append, List.nil_append]
      rw [e0, unquoteBytes_pct _ _ _ _ rest e1 e2]
      rfl
    · split
      · simp only [pyQuote, utf8Enc, List.flatMap_cons, List.flatMap_nil, List.append_nil]
        exact unquoteBytes_quote_append _ _
      · rename_i h1 h2 h3
        simp only [softC, Bool.or_eq_true] at h
        have ha : isAsciiC c = true := by
          rcases h with h | h
          · exact h
          · exact absurd h h3
        rw [utf8EncChar_ascii c ha]
        simp only [asciiBytes, List.map_cons, List.map_nil, List.cons_append, List.nil_append]
        apply unquoteBytes_cons_ne
        intro e
        apply h1
        simp only [isAsciiC, decide_eq_true_eq] at ha
        have : (UInt8.ofNat c.toNat).toNat = 37 := by rw [e]; rfl
        rw [ofNat_toNat_lt _ (by omega)] at this
        exact Char.toNat_inj.mp (by rw [this]; rfl)

theorem unquoteBytes_esc (t : Str) (h : ∀ c ∈ t, softC c = true) :
    unquoteBytes (asciiBytes (t.flatMap escChar)) = utf8Enc t := by
  induction t with
  | nil => exact unquoteBytes_nil
  | cons c cs ih =>
    simp only [List.flatMap_cons, asciiBytes_append, utf8Enc] at ih ⊢
    rw [unquoteBytes_escChar c (h c (by simp)), ih (fun x hx => h x (by simp [hx]))]

theorem esc_ascii (t : Str) (h : ∀ c ∈ t, softC c = true) :
    ∀ x ∈ t.flatMap escChar, isAsciiC x = true := by
  intro x hx
  simp only [List.mem_flatMap] at hx
  obtain ⟨c, hc, hxc⟩ := hx
  exact escChar_ascii c (h c hc) x hxc

theorem flushRun_esc (t : Str) (h : ∀ c ∈ t, softC c = true) :
    flushRun (t.flatMap escChar) = t := by
  unfold flushRun
  rw [utf8Enc_ascii _ (esc_ascii t h), unquoteBytes_esc t h, utf8Dec_utf8Enc]

theorem unquoteRuns_ascii (acc a rest : Str) (h : ∀ x ∈ a, isAsciiC x = true) :
    unquoteRuns acc (a ++ rest) = unquoteRuns (a.reverse ++ acc) rest := by
  induction a generalizing acc with
  | nil => rfl
  | cons x xs ih =>
    simp only [List.cons_append, unquoteRuns, h x (by simp), if_true]
    rw [ih _ (fun y hy => h y (by simp [hy]))]
    simp

theorem unquoteRuns_esc (t s : Str) (h : ∀ c ∈ t, softC c = true) :
    unquoteRuns (t.flatMap escChar).reverse (s.flatMap escChar) = t ++ s := by
  induction s generalizing t with
  | nil => simp [unquoteRuns, flushRun_esc t h]
  | cons c cs ih =>
    rw [List.flatMap_cons]
    by_cases hc : softC c = true
    · rw [unquoteRuns_ascii _ _ _ (escChar_ascii c hc)]
      have h' : ∀ x ∈ t ++ [c], softC x = true := by
        intro x hx
        simp only [List.mem_append, List.mem_singleton] at hx
        rcases hx with hx | rfl
        · exact h x hx
        · exact hc
      have := ih (t ++ [c]) h'
      simp only [List.flatMap_append, List.flatMap_cons, List.flatMap_nil, List.append_nil,
        List.reverse_append] at this
      rw [this]; simp
    · have hc' : softC c = false := by simpa using hc
      obtain ⟨e1, e2⟩ := escChar_not_soft c hc'
      rw [e1]
      simp only [List.cons_append, List.nil_append, unquoteRuns, e2, List.reverse_reverse]
      have := ih [] (by simp)
      simp only [List.flatMap_nil, List.reverse_nil, List.nil_append] at this
      rw [this, flushRun_esc t h]
      simp

theorem space_head_not_safe (c : Char) (hs : isPySpace c = true) :
    ∃ b0 tl, utf8EncChar c = b0 :: tl ∧ isSafeByte b0 = false := by
  have hv := char_valid c
  simp only [isPySpace, Bool.or_eq_true, Bool.and_eq_true, decide_eq_true_eq, beq_iff_eq] at hs
  unfold utf8EncChar
  simp only []
  generalize c.toNat = n at hv hs ⊢
  by_cases ha : n < 0x80
  · refine ⟨_, _, by simp only [ha, if_true]; rfl, ?_⟩
    simp only [isSafeByte, ofNat_toNat_lt n (by omega)]
    simp; omega
  by_cases ha2 : n < 0x800
  · refine ⟨_, _, by simp only [ha, ha2, if_true, if_false]; rfl, ?_⟩
    simp only [isSafeByte, ofNat_toNat_lt (0xC0 + n / 64) (by omega)]
    simp; omega
  by_cases ha3 : n < 0x10000
  · refine ⟨_, _, by simp only [ha, ha2, ha3, if_true, if_false]; rfl, ?_⟩
    simp only [isSafeByte, ofNat_toNat_lt (0xE0 + n / 4096) (by omega)]
    simp; omega
  · refine ⟨_, _, by simp only [ha, ha2, ha3, if_false]; rfl, ?_⟩
    simp only [isSafeByte, ofNat_toNat_lt (0xF0 + n / 262144) (by omega)]
    simp; omega

theorem pct_mem_quote_space (c : Char) (hs : isPySpace c = true) : '%' ∈ pyQuote [c] := by
  obtain ⟨b0, tl, e, hb⟩ := space_head_not_safe c hs
  simp [pyQuote, utf8Enc, quoteFromBytes, e, quoteByte, hb]

theorem escChar_no_pct (c : Char) (h : '%' ∉ escChar c) : escChar c = [c] := by
  unfold escChar at h ⊢
  by_cases h1 : c = '%'
  · simp [h1] at h
  · by_cases h2 : c = ';'
    · simp [h2] at h
    · by_cases h3 : isPySpace c = true
      · simp only [h1, h2, h3, if_true, if_false] at h
        exact absurd (pct_mem_quote_space c h3) h
      · simp [h1, h2, h3]

theorem esc_no_pct (s : Str) (h : '%' ∉ s.flatMap escChar) : s.flatMap escChar = s := by
  induction s with
  | nil => rfl
  | cons c cs ih =>
    simp only [List.flatMap_cons, List.mem_append, not_or] at h ⊢
    rw [escChar_no_pct c h.1, ih h.2]; rfl

/-- **the assertion inside `qualifiers()`**, for every origin (with the repaired escaping) -/
theorem pyUnquote_escapeOrigin (s : Str) : pyUnquote (escapeOrigin s) = s := by
  rw [escapeOrigin_eq]
  unfold pyUnquote
  split
  · have := unquoteRuns_esc [] s (by simp)
    simpa using this
  · rename_i h; exact esc_no_pct s h

end Swh
