import SwhVerif.Model.Hash
namespace Swh.Hash
open Swh

/-- a MultiHash whose cells exist and are pairwise distinct, with distinct names -/
structure WfMH (h : Heap) (m : MH) : Prop where
  valid : ∀ e ∈ m.state, e.2 < h.length
  idxNodup : (m.state.map (·.2)).Nodup
  nameNodup : (m.state.map (·.1)).Nodup

theorem feed_length (h : Heap) (i : Nat) (c : Bytes) : (feed h i c).length = h.length := by
  unfold feed; split <;> simp

theorem feed_get_same (h : Heap) (i : Nat) (c : Bytes) (cell : Cell) (hi : h[i]? = some cell) :
    (feed h i c)[i]? = some { cell with fed := cell.fed ++ c } := by
  unfold feed
  have hlt : i < h.length := by
    rcases Nat.lt_or_ge i h.length with h1 | h1
    · exact h1
    · simp [List.getElem?_eq_none h1] at hi
  have hget : h[i] = cell := by
    have := List.getElem?_eq_getElem hlt
    rw [hi] at this; exact (Option.some.inj this).symm
  simp [hi, hlt, hget]

theorem feed_get_other (h : Heap) (i j : Nat) (c : Bytes) (hij : i ≠ j) :
    (feed h i c)[j]? = h[j]? := by
  unfold feed; split
  · simp [List.getElem?_set, hij]
  · rfl

theorem foldl_feed_length (st : List (Name × Nat)) (h : Heap) (c : Bytes) :
    (st.foldl (fun h e => feed h e.2 c) h).length = h.length := by
  induction st generalizing h with
  | nil => rfl
  | cons e st ih => simp only [List.foldl_cons]; rw [ih, feed_length]

theorem foldl_feed_other (st : List (Name × Nat)) (h : Heap) (c : Bytes) (j : Nat)
    (hj : ∀ e ∈ st, e.2 ≠ j) : (st.foldl (fun h e => feed h e.2 c) h)[j]? = h[j]? := by
  induction st generalizing h with
  | nil => rfl
  | cons e st ih =>
    simp only [List.foldl_cons]
    rw [ih _ (fun x hx => hj x (by simp [hx])), feed_get_other _ _ _ _ (hj e (by simp))]

theorem foldl_feed_mem (st : List (Name × Nat)) (h : Heap) (c : Bytes) (j : Nat) (cell : Cell)
    (hnd : (st.map (·.2)).Nodup) (hj : ∃ e ∈ st, e.2 = j) (hc : h[j]? = some cell) :
    (st.foldl (fun h e => feed h e.2 c) h)[j]? = some { cell with fed := cell.fed ++ c } := by
  induction st generalizing h with
  | nil => obtain ⟨e, he, _⟩ := hj; cases he
  | cons e st ih =>
    simp only [List.map_cons, List.nodup_cons, List.mem_map, not_exists, not_and] at hnd
    simp only [List.foldl_cons]
    by_cases hej : e.2 = j
    · rw [foldl_feed_other st _ c j (fun x hx hxj => hnd.1 x hx (by rw [hxj, hej]))]
      rw [hej]; exact feed_get_same h j c cell hc
    · obtain ⟨x, hx, hxj⟩ := hj
      have hx' : x ∈ st := by
        simp only [List.mem_cons] at hx
        rcases hx with rfl | hx
        · exact absurd hxj hej
        · exact hx
      exact ih _ hnd.2 ⟨x, hx', hxj⟩ (by rw [feed_get_other _ _ _ _ hej]; exact hc)

theorem update_wf (h : Heap) (m : MH) (c : Bytes) (hw : WfMH h m) :
    WfMH (update h m c).1 (update h m c).2 := by
  constructor
  · intro e he; simp only [update, foldl_feed_length]; exact hw.valid e he
  · exact hw.idxNodup
  · exact hw.nameNodup

theorem find_name (st : List (Name × Nat)) (n : Name) (e : Name × Nat) (he : e ∈ st) (hn : e.1 = n)
    (hnd : (st.map (·.1)).Nodup) : st.find? (·.1 = n) = some e := by
  induction st with
  | nil => cases he
  | cons x st ih =>
    simp only [List.map_cons, List.nodup_cons, List.mem_map, not_exists, not_and] at hnd
    simp only [List.find?_cons]
    simp only [List.mem_cons] at he
    rcases he with rfl | he
    · simp [hn]
    · have : x.1 ≠ n := fun hx => hnd.1 e he (by rw [hn, hx])
      simp [this, ih he hnd.2]

/-- **one update appends the chunk to every hasher's stream** -/
theorem update_fed (h : Heap) (m : MH) (c : Bytes) (hw : WfMH h m) (n : Name) :
    fedOf (update h m c).1 (update h m c).2 n = (fedOf h m n).map (· ++ c) := by
  unfold fedOf
  simp only [update]
  cases hf : m.state.find? (·.1 = n) with
  | none => simp
  | some e =>
    have hmem : e ∈ m.state := List.mem_of_find?_eq_some hf
    have hlt := hw.valid e hmem
    simp only
    have hc : h[e.2]? = some h[e.2] := List.getElem?_eq_getElem hlt
    rw [foldl_feed_mem m.state h c e.2 h[e.2] hw.idxNodup ⟨e, hmem, rfl⟩ hc, hc]
    rfl

theorem update_length (h : Heap) (m : MH) (c : Bytes) :
    (update h m c).2.length = m.length.map (· + c.length) := rfl

theorem update_state (h : Heap) (m : MH) (c : Bytes) : (update h m c).2.state = m.state := rfl

theorem updates_wf (h : Heap) (m : MH) (chunks : List Bytes) (hw : WfMH h m) :
    WfMH (updates h m chunks).1 (updates h m chunks).2 := by
  induction chunks generalizing h m with
  | nil => exact hw
  | cons c cs ih => exact ih _ _ (update_wf h m c hw)

theorem updates_fed (h : Heap) (m : MH) (chunks : List Bytes) (hw : WfMH h m) (n : Name) :
    fedOf (updates h m chunks).1 (updates h m chunks).2 n = (fedOf h m n).map (· ++ chunks.flatten) := by
  induction chunks generalizing h m with
  | nil => simp [updates]
  | cons c cs ih =>
    have := ih (update h m c).1 (update h m c).2 (update_wf h m c hw)
    simp only [updates, List.foldl_cons] at this ⊢
    rw [this, update_fed h m c hw n]
    cases fedOf h m n <;> simp

theorem updates_length (h : Heap) (m : MH) (chunks : List Bytes) :
    (updates h m chunks).2.length = m.length.map (· + chunks.flatten.length) := by
  induction chunks generalizing h m with
  | nil => cases hl : m.length <;> simp [updates, hl]
  | cons c cs ih =>
    have := ih (update h m c).1 (update h m c).2
    simp only [updates, List.foldl_cons] at this ⊢
    rw [this, update_length]
    cases m.length <;> simp; omega

theorem updates_state (h : Heap) (m : MH) (chunks : List Bytes) :
    (updates h m chunks).2.state = m.state := by
  induction chunks generalizing h m with
  | nil => rfl
  | cons c cs ih =>
    have := ih (update h m c).1 (update h m c).2
    simp only [updates, List.foldl_cons] at this ⊢
    rw [this, update_state]

/-- `from_file` stops at the first empty read and is the fold of `update` before it -/
theorem fromReads_eq (h : Heap) (m : MH) (chunks rest : List Bytes) (hne : ∀ c ∈ chunks, c ≠ []) :
    fromReads h m (chunks ++ [] :: rest) = updates h m chunks := by
  induction chunks generalizing h m with
  | nil => simp [fromReads, updates]
  | cons c cs ih =>
    have hc : c.isEmpty = false := by
      cases c with
      | nil => exact absurd rfl (hne [] (by simp))
      | cons _ _ => rfl
    simp only [List.cons_append, fromReads, hc, Bool.false_eq_true, if_false]
    rw [ih _ _ (fun x hx => hne x (by simp [hx]))]
    simp [updates]

/-! ### the block loop -/

theorem blocks_flatten (bs : Nat) (hbs : 0 < bs) (fuel : Nat) (d : Bytes) (hf : d.length < fuel) :
    (blocks bs fuel d).flatten = d := by
  induction fuel generalizing d with
  | zero => omega
  | succ f ih =>
    unfold blocks
    cases d with
    | nil => simp
    | cons x xs =>
      simp only [List.isEmpty_cons, Bool.false_eq_true, if_false, List.flatten_cons]
      rw [ih ((x :: xs).drop bs) (by simp at hf ⊢; omega)]
      exact List.take_append_drop bs (x :: xs)

theorem blocks_nonempty (bs : Nat) (hbs : 0 < bs) (fuel : Nat) (d : Bytes) :
    ∀ c ∈ blocks bs fuel d, c ≠ [] := by
  induction fuel generalizing d with
  | zero => intro c hc; simp [blocks] at hc
  | succ f ih =>
    intro c hc
    unfold blocks at hc
    cases d with
    | nil => simp at hc
    | cons x xs =>
      simp only [List.isEmpty_cons, Bool.false_eq_true, if_false, List.mem_cons] at hc
      rcases hc with rfl | hc
      · cases bs with
        | zero => omega
        | succ b => simp
      · exact ih _ c hc

theorem blocks_size (bs : Nat) (fuel : Nat) (d : Bytes) : ∀ c ∈ blocks bs fuel d, c.length ≤ bs := by
  induction fuel generalizing d with
  | zero => intro c hc; simp [blocks] at hc
  | succ f ih =>
    intro c hc
    unfold blocks at hc
    split at hc
    · simp at hc
    · simp only [List.mem_cons] at hc
      rcases hc with rfl | hc
      · simp; omega
      · exact ih _ c hc

/-! ### construction -/

theorem mkMHAux_spec (length : Option Nat) (ns : List Name) :
    ∀ (h : Heap) (m : MH), WfMH h m →
      (∀ n ∈ ns, n ≠ "length" → ∃ pre, newHash n length = .ok pre) →
      (ns.filter (· ≠ "length")).Nodup →
      (∀ n ∈ ns, n ≠ "length" → ∀ e ∈ m.state, e.1 ≠ n) →
      ∃ h' m', mkMHAux length h m ns = .ok (h', m') ∧ WfMH h' m' ∧
        m'.state.map (·.1) = m.state.map (·.1) ++ ns.filter (· ≠ "length") ∧
        m'.length = (if "length" ∈ ns then some 0 else m.length) ∧
        (∀ n, (fedOf h m n).isSome → fedOf h' m' n = fedOf h m n) ∧
        (∀ n ∈ ns, n ≠ "length" → ∃ pre, newHash n length = .ok pre ∧ fedOf h' m' n = some pre) := by
  induction ns with
  | nil =>
    intro h m hw _ _ _
    exact ⟨h, m, rfl, hw, by simp, by simp, fun _ _ => rfl, by simp⟩
  | cons n ns ih =>
    intro h m hw hok hnd hfresh
    by_cases hl : n = "length"
    · subst hl
      simp only [mkMHAux, if_true]
      have hw' : WfMH h { m with length := some 0 } := ⟨hw.valid, hw.idxNodup, hw.nameNodup⟩
      obtain ⟨h', m', he, hwf, hst, hlen, hold, hnew⟩ :=
        ih h { m with length := some 0 } hw' (fun x hx => hok x (by simp [hx]))
          (by simpa using hnd) (fun x hx => hfresh x (by simp [hx]))
      refine ⟨h', m', he, hwf, by simpa using hst, ?_, ?_, ?_⟩
      · simp only [List.mem_cons, true_or, if_true]; rw [hlen]; split <;> rfl
      · intro x hx; exact hold x hx
      · intro x hx hxl
        simp only [List.mem_cons] at hx
        rcases hx with rfl | hx
        · exact absurd rfl hxl
        · exact hnew x hx hxl
    · obtain ⟨pre, hpre⟩ := hok n (by simp) hl
      simp only [mkMHAux, hl, if_false, hpre]
      have hnd' : n ∉ ns.filter (· ≠ "length") ∧ (ns.filter (· ≠ "length")).Nodup := by
        simpa [List.filter_cons, hl] using hnd
      have hw' : WfMH (h ++ [⟨baseName n, pre⟩]) { m with state := m.state ++ [(n, h.length)] } := by
        constructor
        · intro e he
          simp only [List.mem_append, List.mem_singleton] at he
          rcases he with he | rfl
          · have := hw.valid e he; simp; omega
          · simp
        · simp only [List.map_append, List.map_cons, List.map_nil]
          rw [List.nodup_append]
          refine ⟨hw.idxNodup, by simp, ?_⟩
          intro a ha b hb
          simp only [List.mem_map] at ha
          obtain ⟨e, he, rfl⟩ := ha
          simp only [List.mem_singleton] at hb
          have := hw.valid e he; omega
        · simp only [List.map_append, List.map_cons, List.map_nil]
          rw [List.nodup_append]
          refine ⟨hw.nameNodup, by simp, ?_⟩
          intro a ha b hb
          simp only [List.mem_map] at ha
          obtain ⟨e, he, rfl⟩ := ha
          simp only [List.mem_singleton] at hb
          rw [hb]
          exact hfresh n (by simp) hl e he
      have hfed_new : fedOf (h ++ [⟨baseName n, pre⟩]) { m with state := m.state ++ [(n, h.length)] } n = some pre := by
        unfold fedOf
        rw [find_name _ n (n, h.length) (by simp) rfl hw'.nameNodup]
        simp
      have hfed_old : ∀ x, (fedOf h m x).isSome →
          fedOf (h ++ [⟨baseName n, pre⟩]) { m with state := m.state ++ [(n, h.length)] } x = fedOf h m x := by
        intro x hx
        unfold fedOf at hx ⊢
        cases hf : m.state.find? (·.1 = x) with
        | none => simp [hf] at hx
        | some e =>
          have hmem := List.mem_of_find?_eq_some hf
          have hlt := hw.valid e hmem
          simp only [List.find?_append, hf, Option.some_or]
          simp [List.getElem?_append_left hlt]
      obtain ⟨h', m', he, hwf, hst, hlen, hold, hnew⟩ :=
        ih _ _ hw' (fun x hx => hok x (by simp [hx])) hnd'.2
          (by
            intro x hx hxl e he
            simp only [List.mem_append, List.mem_singleton] at he
            rcases he with he | rfl
            · exact hfresh x (by simp [hx]) hxl e he
            · intro hnx
              apply hnd'.1
              simp only [List.mem_filter, decide_eq_true_eq]
              exact ⟨by rw [show n = x from hnx]; exact hx, hl⟩)
      refine ⟨h', m', he, hwf, ?_, ?_, ?_, ?_⟩
      · rw [hst]; simp [List.filter_cons, hl]
      · rw [hlen]; simp [Ne.symm hl]
      · intro x hx
        rw [hold x (by rw [hfed_old x hx]; exact hx), hfed_old x hx]
      · intro x hx hxl
        simp only [List.mem_cons] at hx
        rcases hx with rfl | hx
        · exact ⟨pre, hpre, by rw [hold _ (by simp [hfed_new]), hfed_new]⟩
        · exact hnew x hx hxl

theorem mkMHAux_error (length : Option Nat) (ns : List Name) (h : Heap) (m : MH)
    (hbad : ∃ n ∈ ns, n ≠ "length" ∧ ∃ e, newHash n length = .error e) :
    ∃ e, mkMHAux length h m ns = .error e := by
  induction ns generalizing h m with
  | nil => obtain ⟨n, hn, _⟩ := hbad; cases hn
  | cons x xs ih =>
    obtain ⟨n, hn, hl, e, he⟩ := hbad
    by_cases hxl : x = "length"
    · simp only [mkMHAux, hxl, if_true]
      simp only [List.mem_cons] at hn
      rcases hn with rfl | hn
      · exact absurd hxl hl
      · exact ih _ _ ⟨n, hn, hl, e, he⟩
    · simp only [mkMHAux, hxl, if_false]
      cases hx : newHash x length with
      | error e' => exact ⟨e', rfl⟩
      | ok pre =>
        simp only [List.mem_cons] at hn
        rcases hn with rfl | hn
        · rw [hx] at he; cases he
        · exact ih _ _ ⟨n, hn, hl, e, he⟩

end Swh.Hash

namespace Swh.Hash
open Swh

/-! ### copy -/

def Disjoint (m c : MH) : Prop := ∀ e ∈ m.state, ∀ e' ∈ c.state, e.2 ≠ e'.2

theorem update_fed_other (h : Heap) (m m2 : MH) (c : Bytes) (hd : Disjoint m m2) (n : Name) :
    fedOf (update h m c).1 m2 n = fedOf h m2 n := by
  unfold fedOf
  cases hf : m2.state.find? (·.1 = n) with
  | none => rfl
  | some e =>
    have hmem := List.mem_of_find?_eq_some hf
    simp only [update]
    rw [foldl_feed_other m.state h c e.2 (fun x hx => hd x hx e hmem)]

theorem update_wf_other (h : Heap) (m m2 : MH) (c : Bytes) (hw : WfMH h m2) :
    WfMH (update h m c).1 m2 := by
  constructor
  · intro e he; simp only [update, foldl_feed_length]; exact hw.valid e he
  · exact hw.idxNodup
  · exact hw.nameNodup

theorem filterMap_valid (h : Heap) (st : List (Name × Nat)) (hv : ∀ e ∈ st, e.2 < h.length) :
    st.filterMap (fun e => h[e.2]?) = st.map (fun e => h[e.2]?.getD ⟨"", []⟩) ∧
    (st.filterMap (fun e => h[e.2]?)).length = st.length := by
  induction st with
  | nil => simp
  | cons e st ih =>
    have hlt := hv e (by simp)
    have := ih (fun x hx => hv x (by simp [hx]))
    simp [List.filterMap_cons, List.getElem?_eq_getElem hlt, this.1, this.2]

theorem zip_range_get (st : List (Name × Nat)) (k : Nat) (hk : k < st.length) (b : Nat) :
    ((st.zip (List.range st.length)).map (fun (e, i) => (e.1, b + i)))[k]? = some (st[k].1, b + k) := by
  simp [List.getElem?_map, List.getElem?_zip_eq_some, hk]

theorem nodup_map_add (b n : Nat) : ((List.range n).map (b + ·)).Nodup := by
  induction n with
  | zero => simp
  | succ n ih =>
    rw [List.range_succ, List.map_append, List.nodup_append]
    refine ⟨ih, by simp, ?_⟩
    intro a ha c hc
    simp only [List.mem_map, List.mem_range] at ha
    obtain ⟨k, hk, rfl⟩ := ha
    simp only [List.map_cons, List.map_nil, List.mem_singleton] at hc
    omega

theorem copy_spec (h : Heap) (m : MH) (hw : WfMH h m) :
    WfMH (copy h m).1 m ∧ WfMH (copy h m).1 (copy h m).2 ∧ Disjoint m (copy h m).2 ∧
    Disjoint (copy h m).2 m ∧ (copy h m).2.length = m.length ∧
    (∀ n, fedOf (copy h m).1 m n = fedOf h m n) ∧
    (∀ n, fedOf (copy h m).1 (copy h m).2 n = fedOf h m n) := by
  have hfm := filterMap_valid h m.state hw.valid
  have hlen : (copy h m).1.length = h.length + m.state.length := by simp [copy, hfm.2]
  -- description of the copy's state
  have hstate : (copy h m).2.state
      = (m.state.zip (List.range m.state.length)).map (fun (e, k) => (e.1, h.length + k)) := rfl
  have hnames : (copy h m).2.state.map (·.1) = m.state.map (·.1) := by
    rw [hstate]
    apply List.ext_getElem
    · simp
    · intro i h1 h2
      simp
  have hidx : (copy h m).2.state.map (·.2) = (List.range m.state.length).map (h.length + ·) := by
    rw [hstate]
    apply List.ext_getElem
    · simp
    · intro i h1 h2
      simp
  have hnew_ge : ∀ e' ∈ (copy h m).2.state, h.length ≤ e'.2 ∧ e'.2 < h.length + m.state.length := by
    intro e' he'
    have : e'.2 ∈ (copy h m).2.state.map (·.2) := List.mem_map_of_mem he'
    rw [hidx] at this
    simp only [List.mem_map, List.mem_range] at this
    obtain ⟨k, hk, hke⟩ := this
    omega
  have hdisj : Disjoint m (copy h m).2 := by
    intro e he e' he'
    have := hw.valid e he
    have := (hnew_ge e' he').1
    omega
  have hwold : WfMH (copy h m).1 m :=
    ⟨fun e he => by rw [hlen]; have := hw.valid e he; omega, hw.idxNodup, hw.nameNodup⟩
  have hwnew : WfMH (copy h m).1 (copy h m).2 := by
    refine ⟨fun e he => by rw [hlen]; exact (hnew_ge e he).2, ?_, by rw [hnames]; exact hw.nameNodup⟩
    rw [hidx]
    exact nodup_map_add h.length m.state.length
  refine ⟨hwold, hwnew, hdisj, fun e he e' he' => (hdisj e' he' e he).symm, rfl, ?_, ?_⟩
  · intro n
    unfold fedOf
    cases hf : m.state.find? (·.1 = n) with
    | none => rfl
    | some e =>
      have hlt := hw.valid e (List.mem_of_find?_eq_some hf)
      simp only [copy]
      rw [List.getElem?_append_left hlt]
  · intro n
    -- position of `n` in the state list
    unfold fedOf
    cases hf : m.state.find? (·.1 = n) with
    | none =>
      have hnone : (copy h m).2.state.find? (·.1 = n) = none := by
        rw [List.find?_eq_none] at hf ⊢
        intro x hx
        have hxn : x.1 ∈ (copy h m).2.state.map (·.1) := List.mem_map_of_mem hx
        rw [hnames] at hxn
        simp only [List.mem_map] at hxn
        obtain ⟨y, hy, hyx⟩ := hxn
        have := hf y hy
        simpa [hyx] using this
      rw [hnone]
    | some e =>
      have hmem := List.mem_of_find?_eq_some hf
      have hen : e.1 = n := by simpa using List.find?_some hf
      obtain ⟨k, hk, hke⟩ := List.getElem_of_mem hmem
      have hmem' : (e.1, h.length + k) ∈ (copy h m).2.state := by
        rw [hstate]
        apply List.mem_of_getElem? (i := k)
        rw [zip_range_get m.state k hk h.length, hke]
      rw [find_name _ n (e.1, h.length + k) hmem' hen hwnew.nameNodup]
      simp only [copy]
      have hlt := hw.valid e hmem
      rw [List.getElem?_append_right (by omega)]
      simp only [Nat.add_sub_cancel_left]
      rw [hfm.1]
      simp only [List.getElem?_map, List.getElem?_eq_getElem hk, Option.map_some, hke]
      rw [List.getElem?_eq_getElem hlt]
      simp

theorem runOps_spec (ops : List (Bool × Bytes)) :
    ∀ (h : Heap) (mo mc : MH), WfMH h mo → WfMH h mc → Disjoint mo mc → Disjoint mc mo →
      ∀ n, fedOf (runOps h mo mc ops).1 (runOps h mo mc ops).2.1 n
              = (fedOf h mo n).map (· ++ (chunksOf true ops).flatten) ∧
           fedOf (runOps h mo mc ops).1 (runOps h mo mc ops).2.2 n
              = (fedOf h mc n).map (· ++ (chunksOf false ops).flatten) ∧
           (runOps h mo mc ops).2.1.length = mo.length.map (· + (chunksOf true ops).flatten.length) ∧
           (runOps h mo mc ops).2.2.length = mc.length.map (· + (chunksOf false ops).flatten.length) := by
  induction ops with
  | nil =>
    intro h mo mc _ _ _ _ n
    simp only [runOps, chunksOf, List.filter_nil, List.map_nil, List.flatten_nil, List.append_nil,
      List.length_nil, Nat.add_zero]
    refine ⟨?_, ?_, ?_, ?_⟩
    · cases fedOf h mo n <;> rfl
    · cases fedOf h mc n <;> rfl
    · cases mo.length <;> rfl
    · cases mc.length <;> rfl
  | cons o ops ih =>
    intro h mo mc hwo hwc hd1 hd2 n
    obtain ⟨who, c⟩ := o
    cases who with
    | true =>
      have hd1' : Disjoint (update h mo c).2 mc := hd1
      have hd2' : Disjoint mc (update h mo c).2 := hd2
      have := ih (update h mo c).1 (update h mo c).2 mc (update_wf h mo c hwo)
        (update_wf_other h mo mc c hwc) hd1' hd2' n
      simp only [runOps]
      obtain ⟨a, b, l1, l2⟩ := this
      refine ⟨?_, ?_, ?_, ?_⟩
      · rw [a, update_fed h mo c hwo n]
        cases fedOf h mo n <;> simp [chunksOf]
      · rw [b, update_fed_other h mo mc c hd1 n]
        simp [chunksOf]
      · rw [l1, update_length]
        cases mo.length <;> simp [chunksOf]; omega
      · rw [l2]; simp [chunksOf]
    | false =>
      have hd1' : Disjoint mo (update h mc c).2 := hd1
      have hd2' : Disjoint (update h mc c).2 mo := hd2
      have := ih (update h mc c).1 mo (update h mc c).2 (update_wf_other h mc mo c hwo)
        (update_wf h mc c hwc) hd1' hd2' n
      simp only [runOps]
      obtain ⟨a, b, l1, l2⟩ := this
      refine ⟨?_, ?_, ?_, ?_⟩
      · rw [a, update_fed_other h mc mo c hd2 n]
        simp [chunksOf]
      · rw [b, update_fed h mc c hwc n]
        cases fedOf h mc n <;> simp [chunksOf]
      · rw [l1]; simp [chunksOf]
      · rw [l2, update_length]
        cases mc.length <;> simp [chunksOf]; omega

end Swh.Hash
