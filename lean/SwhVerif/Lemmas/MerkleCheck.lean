import SwhVerif.Lemmas.MerkleRun
/-!
# Merkle cache: an executable acyclicity check for concrete histories (used by the examples)
-/
namespace Swh.Merkle
variable {H : Type} {hashFn : Data → List (EntryV H) → H}

/-- a rank given as a list indexed by node id; unallocated ids have rank 0 -/
def rankFn (h : Heap H) (rank : List Nat) (n : Id) : Nat := if n < h.size then rank.getD n 0 else 0

def checkRank (h : Heap H) (rank : List Nat) : Bool :=
  (List.range h.size).all (fun p =>
    (kids h p).all (fun c => decide (rankFn h rank c < rankFn h rank p)) &&
      decide (rankFn h rank p ≤ h.size))

theorem acyclic_of_checkRank (h : Heap H) (rank : List Nat) (hc : checkRank h rank = true) :
    Acyclic h := by
  unfold checkRank at hc
  rw [List.all_eq_true] at hc
  refine ⟨rankFn h rank, ?_, ?_⟩
  · intro p c hcp
    by_cases hp : p < h.size
    · have := hc p (List.mem_range.mpr hp)
      simp only [Bool.and_eq_true, List.all_eq_true, decide_eq_true_eq] at this
      exact this.1 c hcp
    · rw [kids, Heap.get_of_ge h p (Nat.le_of_not_lt hp)] at hcp
      cases hcp
  · intro n
    by_cases hn : n < h.size
    · have := hc n (List.mem_range.mpr hn)
      simp only [Bool.and_eq_true, decide_eq_true_eq] at this
      exact this.2
    · simp [rankFn, hn]

/-- every heap of the history started in `h` passes `checkRank` with the same rank list -/
def checkHist (hashFn : Data → List (EntryV H) → H) (rank : List Nat) : Heap H → List Op → Bool
  | h, [] => checkRank h rank
  | h, op :: ops => checkRank h rank && checkHist hashFn rank (step hashFn h op).1 ops

theorem acyclicHist_of_check (rank : List Nat) : ∀ (ops : List Op) (h : Heap H),
    checkHist hashFn rank h ops = true → AcyclicHist hashFn h ops := by
  intro ops
  induction ops with
  | nil => intro h hc; exact acyclic_of_checkRank h rank hc
  | cons op t ih =>
    intro h hc
    simp only [checkHist, Bool.and_eq_true] at hc
    exact ⟨acyclic_of_checkRank h rank hc.1, ih _ hc.2⟩

end Swh.Merkle
