import SwhVerif.Lemmas.SerdeRoundtrip1
/-!
  C12 round trips, part 2: releases and revisions (nested optional persons and dates,
  `__attrs_post_init__` of revisions).
-/
set_option linter.unusedSimpArgs false
namespace Swh.Serde
open Swh

@[simp] theorem truthy_toDictPerson (p : Person) : truthy (toDictPerson p) = true := by
  simp [toDictPerson, build, truthy]
@[simp] theorem truthy_toDictTstz (t : TimestampWithTimezone) :
    truthy (toDictTimestampWithTimezone t) = true := by
  simp [toDictTimestampWithTimezone, build, truthy]

@[simp] theorem decIfTruthy_person (x : Option Person) :
    decIfTruthy fromDictPerson (encOptPerson x) = .ok x := by
  cases x with
  | none => rfl
  | some p => simp [decIfTruthy, encOptPerson, rt_Person, Except.map]

theorem decIfTruthy_tstz (x : Option TimestampWithTimezone)
    (h : optValid ValidTimestampWithTimezone x) :
    decIfTruthy fromDictTimestampWithTimezone (encOptTstz x) = .ok x := by
  cases x with
  | none => rfl
  | some t => simp [decIfTruthy, encOptTstz, rt_TimestampWithTimezone t h, Except.map]

@[simp] theorem noneOrTruthy_person (x : Option Person) : noneOrTruthy (encOptPerson x) = true := by
  cases x with
  | none => rfl
  | some p => simp [noneOrTruthy, encOptPerson]
@[simp] theorem noneOrTruthy_tstz (x : Option TimestampWithTimezone) :
    noneOrTruthy (encOptTstz x) = true := by
  cases x with
  | none => rfl
  | some p => simp [noneOrTruthy, encOptTstz]
@[simp] theorem isNoneVal_tstz (x : Option TimestampWithTimezone) :
    isNoneVal (encOptTstz x) = x.isNone := by
  cases x with
  | none => rfl
  | some t => simp [encOptTstz, toDictTimestampWithTimezone, build, isNoneVal]

theorem rt_Release (ids : IdFns) (o : Release) (h : ValidRelease o) :
    fromDictRelease ids (toDictRelease o) = .ok o := by
  obtain ⟨h1, h2, h3, h4⟩ := h
  have hg : (o.author.isSome || o.date.isNone) = true := by
    cases ha : o.author with
    | none => simp [h2 ha]
    | some a => simp
  serde_simp [fromDictRelease, toDictRelease, releaseFields, decEnum, decIfTruthy_tstz o.date h3,
    h1, h4, hg]

theorem revisionPostInit_valid (ids : IdFns) (o : Revision) (hid : o.id ≠ [])
    (hm : o.extra_headers = [] → optValid (fun m => mlookup kExtraHeaders m = none) o.metadata) :
    revisionPostInit ids o = .ok o := by
  unfold revisionPostInit
  have he : o.id.isEmpty = false := by cases hi : o.id with
    | nil => exact absurd hi hid
    | cons _ _ => rfl
  simp only [he, Bool.false_eq_true, if_false]
  cases hmd : o.metadata with
  | none => rfl
  | some m =>
    simp only
    by_cases hme : m.isEmpty = true
    · simp [hme]
    · simp only [hme, Bool.false_eq_true, if_false]
      by_cases hx : o.extra_headers.isEmpty = true
      · have : o.extra_headers = [] := by simpa using hx
        have := hm this
        rw [hmd] at this
        simp only [optValid] at this
        simp [hx, this]
      · simp [hx]

theorem rt_Revision (ids : IdFns) (o : Revision) (h : ValidRevision o) :
    fromDictRevision ids (toDictRevision o) = .ok o := by
  obtain ⟨h1, h2, h3, h4, h5, h6, h7⟩ := h
  have hg1 : (o.author.isSome || o.date.isNone) = true := by
    cases ha : o.author with
    | none => simp [h2 ha]
    | some a => simp
  have hg2 : (o.committer.isSome || o.committer_date.isNone) = true := by
    cases ha : o.committer with
    | none => simp [h3 ha]
    | some a => simp
  have hp := revisionPostInit_valid ids o h6 h7
  serde_simp [fromDictRevision, toDictRevision, revisionFields, decEnum, decParents, iterVals,
    decIfTruthy_tstz o.date h4, decIfTruthy_tstz o.committer_date h5, h1, hg1, hg2, hp]

end Swh.Serde
