import SwhVerif.Lemmas.SerdeBasic
/-!
  C12 round trips, part 1: the classes without SWHID-valued fields and without nested optional
  objects.
-/
set_option linter.unusedSimpArgs false
namespace Swh.Serde
open Swh

/-- the common simp set: reading the keys of a dictionary literal -/
macro "serde_simp" "[" ts:Lean.Parser.Tactic.simpLemma,* "]" : tactic =>
  `(tactic| simp [lookup_build, arg_build, argD_build, item_build, erase_build, specLookup,
      kwargs_build, specKeysIn, bind, Except.bind, pure, Except.pure, $ts,*])

theorem mapE_map' {α β γ} (f : β → Except ErrKind γ) (g : α → β) (k : α → γ) (l : List α)
    (h : ∀ a ∈ l, f (g a) = .ok (k a)) : mapE f (l.map g) = .ok (l.map k) := by
  induction l with
  | nil => rfl
  | cons a as ih =>
    have h1 := h a (by simp)
    have h2 := ih (fun x hx => h x (by simp [hx]))
    simp only [List.map, mapE, h1, h2]

theorem rt_Person (o : Person) : fromDictPerson (toDictPerson o) = .ok o := by
  serde_simp [fromDictPerson, toDictPerson]

theorem rt_Timestamp (o : Timestamp) (h : ValidTimestamp o) :
    fromDictTimestamp (toDictTimestamp o) = .ok o := by
  obtain ⟨h1, h2, h3, h4⟩ := h
  serde_simp [fromDictTimestamp, toDictTimestamp, mkTs, h1, h2, h3, h4]

theorem rt_TimestampWithTimezone (o : TimestampWithTimezone) (h : ValidTimestampWithTimezone o) :
    fromDictTimestampWithTimezone (toDictTimestampWithTimezone o) = .ok o := by
  obtain ⟨h1, h2, h3, h4⟩ := h
  serde_simp [fromDictTimestampWithTimezone, toDictTimestampWithTimezone, toDictTimestamp, mkTs,
    h1, h2, h3, h4]

theorem rt_Origin (ids : IdFns) (o : Origin) (h : ValidOrigin o) :
    fromDictOrigin ids (toDictOrigin o) = .ok o := by
  obtain ⟨h1, h2⟩ := h
  serde_simp [fromDictOrigin, toDictOrigin, mkOrigin, h1, h2]

theorem rt_OriginVisit (o : OriginVisit) : fromDictOriginVisit (toDictOriginVisit o) = .ok o := by
  serde_simp [fromDictOriginVisit, toDictOriginVisit]

theorem rt_OriginVisitStatus (o : OriginVisitStatus) (h : ValidOriginVisitStatus o) :
    fromDictOriginVisitStatus (toDictOriginVisitStatus o) = .ok o := by
  unfold ValidOriginVisitStatus at h
  serde_simp [fromDictOriginVisitStatus, toDictOriginVisitStatus, decIn, decEnum, h]

theorem rt_SnapshotBranch (o : SnapshotBranch) (h : ValidSnapshotBranch o) :
    fromDictSnapshotBranch (toDictSnapshotBranch o) = .ok o := by
  obtain ⟨h1, h2⟩ := h
  have h3 : (o.target_type == kAlias || o.target.length == 20) = true := by
    by_cases ha : o.target_type = kAlias
    · simp [ha]
    · simp [h2 ha]
  serde_simp [fromDictSnapshotBranch, toDictSnapshotBranch, decEnum, h1, h3]

theorem decBranch_enc (b : Option SnapshotBranch) (h : ∀ x, b = some x → ValidSnapshotBranch x) :
    decBranch (encBranch b) = .ok b := by
  cases b with
  | none => rfl
  | some x =>
    have := rt_SnapshotBranch x (h x rfl)
    simp only [decBranch, encBranch, this]
    simp [toDictSnapshotBranch, build, truthy, Except.map]

theorem rt_Snapshot (ids : IdFns) (o : Snapshot) (h : ValidSnapshot o) :
    fromDictSnapshot ids (toDictSnapshot o) = .ok o := by
  obtain ⟨h1, h2⟩ := h
  have e1 : mapE (fun p : Val × Val => (decBranch p.2).map (fun b => (p.1, b)))
      (o.branches.map (fun p => (Val.bytes p.1, encBranch p.2)))
      = .ok (o.branches.map (fun p => (Val.bytes p.1, p.2))) := by
    apply mapE_map'
    intro a ha
    simp [decBranch_enc a.2 (h1 a ha), Except.map]
  have e2 : mapE (fun p : Val × Option SnapshotBranch => (decBytes p.1).map (fun n => (n, p.2)))
      (o.branches.map (fun p => (Val.bytes p.1, p.2))) = .ok o.branches := by
    have := mapE_map' (fun p : Val × Option SnapshotBranch => (decBytes p.1).map (fun n => (n, p.2)))
      (fun p : Bytes × Option SnapshotBranch => (Val.bytes p.1, p.2)) id o.branches
      (by intro a _; simp [Except.map])
    simpa using this
  serde_simp [fromDictSnapshot, toDictSnapshot, e1, e2, h2]

theorem rt_DirectoryEntry (o : DirectoryEntry) (h : ValidDirectoryEntry o) :
    fromDictDirectoryEntry (toDictDirectoryEntry o) = .ok o := by
  obtain ⟨h1, h2⟩ := h
  serde_simp [fromDictDirectoryEntry, toDictDirectoryEntry, convInt, decIn, decEnum, h1, h2]

theorem rt_Directory (ids : IdFns) (o : Directory) (h : ValidDirectory o) :
    fromDictDirectory ids (toDictDirectory o) = .ok o := by
  obtain ⟨h1, h2, h3⟩ := h
  have e1 : mapE fromDictDirectoryEntry (o.entries.map toDictDirectoryEntry) = .ok o.entries := by
    have := mapE_map' fromDictDirectoryEntry toDictDirectoryEntry id o.entries
      (fun a ha => rt_DirectoryEntry a (h1 a ha))
    simpa using this
  serde_simp [fromDictDirectory, toDictDirectory, iterVals, e1, h2, h3]

theorem rt_Content (o : Content) (h : ValidContent o) :
    fromDictContent (toDictContent o) = .ok o := by
  obtain ⟨h1, h2, h3⟩ := h
  obtain ⟨sha1, sha1_git, sha256, blake2s256, length, status, data, get_data, ctime⟩ := o
  simp only at h1 h2 h3
  subst h3
  serde_simp [fromDictContent, toDictContent, contentFields, decIn, decEnum, decGetData, h1, h2]

theorem rt_SkippedContent (o : SkippedContent) (h : ValidSkippedContent o) :
    fromDictSkippedContent (toDictSkippedContent o) = .ok o := by
  obtain ⟨h1, h2⟩ := h
  serde_simp [fromDictSkippedContent, toDictSkippedContent, skippedFields, decIn, decEnum, isNoneVal, h1, h2]

theorem rt_MetadataAuthority (o : MetadataAuthority) (h : ValidMetadataAuthority o) :
    fromDictMetadataAuthority (toDictMetadataAuthority o) = .ok o := by
  unfold ValidMetadataAuthority at h
  serde_simp [fromDictMetadataAuthority, toDictMetadataAuthority, decEnum, h]

theorem rt_MetadataFetcher (o : MetadataFetcher) :
    fromDictMetadataFetcher (toDictMetadataFetcher o) = .ok o := by
  serde_simp [fromDictMetadataFetcher, toDictMetadataFetcher]

end Swh.Serde
