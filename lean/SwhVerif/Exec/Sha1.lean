import SwhVerif.Base.Bytes
/-!
  Executable SHA-1, used ONLY by the driver (so that nested objects get real ids).  It is part
  of the test oracle, never of a theorem: every property theorem keeps the hash uninterpreted.
  Validated against hashlib by the harness on every run.
-/
namespace Swh.Sha1

def rotl (x : UInt32) (n : UInt32) : UInt32 := (x <<< n) ||| (x >>> (32 - n))

def be32 (a b c d : UInt8) : UInt32 :=
  (a.toUInt32 <<< 24) ||| (b.toUInt32 <<< 16) ||| (c.toUInt32 <<< 8) ||| d.toUInt32

/-- message padding: 0x80, zeros, 64-bit big-endian bit length -/
def pad (msg : Array UInt8) : Array UInt8 := Id.run do
  let ml : UInt64 := (msg.size.toUInt64) * 8
  let mut m := msg.push 0x80
  while m.size % 64 != 56 do
    m := m.push 0
  for i in [0:8] do
    m := m.push ((ml >>> (56 - 8 * i.toUInt64)).toUInt8)
  return m

def processBlock (h : Array UInt32) (blk : Array UInt8) (off : Nat) : Array UInt32 := Id.run do
  let mut w : Array UInt32 := Array.mkEmpty 80
  for i in [0:16] do
    w := w.push (be32 blk[off + 4*i]! blk[off + 4*i + 1]! blk[off + 4*i + 2]! blk[off + 4*i + 3]!)
  for i in [16:80] do
    w := w.push (rotl (w[i-3]! ^^^ w[i-8]! ^^^ w[i-14]! ^^^ w[i-16]!) 1)
  let mut a := h[0]!
  let mut b := h[1]!
  let mut c := h[2]!
  let mut d := h[3]!
  let mut e := h[4]!
  for i in [0:80] do
    let (f, k) : UInt32 × UInt32 :=
      if i < 20 then ((b &&& c) ||| ((~~~ b) &&& d), 0x5A827999)
      else if i < 40 then (b ^^^ c ^^^ d, 0x6ED9EBA1)
      else if i < 60 then ((b &&& c) ||| (b &&& d) ||| (c &&& d), 0x8F1BBCDC)
      else (b ^^^ c ^^^ d, 0xCA62C1D6)
    let temp := rotl a 5 + f + e + k + w[i]!
    e := d
    d := c
    c := rotl b 30
    b := a
    a := temp
  return #[h[0]! + a, h[1]! + b, h[2]! + c, h[3]! + d, h[4]! + e]

def sha1 (msg : Bytes) : Bytes := Id.run do
  let m := pad msg.toArray
  let mut h : Array UInt32 := #[0x67452301, 0xEFCDAB89, 0x98BADCFE, 0x10325476, 0xC3D2E1F0]
  for i in [0:m.size / 64] do
    h := processBlock h m (64 * i)
  let mut out : Array UInt8 := Array.mkEmpty 20
  for x in h do
    out := out.push (x >>> 24).toUInt8
    out := out.push (x >>> 16).toUInt8
    out := out.push (x >>> 8).toUInt8
    out := out.push x.toUInt8
  return out.toList

end Swh.Sha1
