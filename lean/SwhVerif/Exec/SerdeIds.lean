import SwhVerif.Model.Serde
import SwhVerif.Model.Manifests
import SwhVerif.Model.Directory
import SwhVerif.Model.Snapshot
import SwhVerif.Exec.Sha1
/-!
  Driver side of C12: the intrinsic-identifier functions (`IdFns`) instantiated with the
  manifest models of C02–C05/C15 and the executable SHA-1, so that the driver can answer with
  the very ids the implementation computes (absent `id`, `ExtID.from_dict`, legacy origin target).
  Nothing here is used by a theorem: in `Props/C12` the id functions are uninterpreted.

  Outside the constructor's domain (a release without target, a string with a lone surrogate,
  a negative `perms`) the Python `compute_hash` raises; these functions then return the hash of
  a manifest built from a default (empty bytes / 0), which the harness never reaches with a
  valid object.
-/
namespace Swh.Serde
open Swh

def utf8OfPStr (s : PStr) : Bytes :=
  match strToChars s with
  | some cs => utf8Enc cs
  | none => []

def asciiOfPStr (s : PStr) : Bytes := s.map UInt8.ofNat

def dateVOf (t : TimestampWithTimezone) : DateV :=
  ⟨t.timestamp.seconds, t.timestamp.microseconds.toNat, t.offset_bytes⟩

/-- `compute_hash` of `HashableObjectWithManifest` -/
def hashWithRaw (raw : Option Bytes) (manifest : Bytes) : Bytes :=
  Sha1.sha1 (match raw with | some r => r | none => manifest)

def realOriginId (url : PStr) : Bytes := Sha1.sha1 (utf8OfPStr url)

def branchOf (p : Bytes × Option SnapshotBranch) : Branch :=
  match p.2 with
  | none => (p.1, .dangling)
  | some b =>
    if b.target_type == k!"alias" then (p.1, .alias b.target)
    else if b.target_type == k!"content" then (p.1, .obj .content b.target)
    else if b.target_type == k!"directory" then (p.1, .obj .directory b.target)
    else if b.target_type == k!"revision" then (p.1, .obj .revision b.target)
    else if b.target_type == k!"release" then (p.1, .obj .release b.target)
    else (p.1, .obj .snapshot b.target)

def realSnapshotId (o : Snapshot) : Bytes := Sha1.sha1 (snapshotIdManifest (o.branches.map branchOf))

def realReleaseId (o : Release) : Bytes :=
  hashWithRaw o.raw_manifest (releaseManifest
    { target := o.target.getD [],
      targetType := (targetTypeToGit (asciiOfPStr o.target_type)).getD [],
      name := o.name,
      author := o.author.map (·.fullname),
      date := o.date.map dateVOf,
      message := o.message })

def metaHeadersOf (m : Option Meta) : Option (List Header) :=
  match m with
  | none => none
  | some m =>
    match mlookup kExtraHeaders m with
    | none => none
    | some hv =>
      match tuplify hv with
      | .error _ => none
      | .ok pairs => match decHeaders pairs with
        | .error _ => none
        | .ok hs => some hs

def realRevisionId (o : Revision) : Bytes :=
  hashWithRaw o.raw_manifest (revisionManifest
    { directory := o.directory, parents := o.parents,
      author := o.author.map (·.fullname), date := o.date.map dateVOf,
      committer := o.committer.map (·.fullname), committerDate := o.committer_date.map dateVOf,
      extraHeaders := o.extra_headers, metaHeaders := metaHeadersOf o.metadata,
      message := o.message })

def entryOf (e : DirectoryEntry) : Entry :=
  { name := e.name,
    type := if e.type == k!"dir" then .dir else if e.type == k!"rev" then .rev else .file,
    perms := e.perms.toNat, target := e.target }

def realDirectoryId (o : Directory) : Bytes :=
  hashWithRaw o.raw_manifest (dirManifest (o.entries.map entryOf))

def swhidBytes (b : BaseSwhid) : Bytes := asciiBytes (printBase b)

def realRemId (o : RawExtrinsicMetadata) : Bytes :=
  Sha1.sha1 (remManifest
    { target := swhidBytes o.target, discovery := o.discovery_date,
      authorityType := asciiOfPStr o.authority.type, authorityUrl := utf8OfPStr o.authority.url,
      fetcherName := utf8OfPStr o.fetcher.name, fetcherVersion := utf8OfPStr o.fetcher.version,
      format := utf8OfPStr o.format, metadata := o.metadata,
      origin := o.origin.map utf8OfPStr, visit := o.visit.map Int.toNat,
      snapshot := o.snapshot.map swhidBytes, release := o.release.map swhidBytes,
      revision := o.revision.map swhidBytes, path := o.path,
      directory := o.directory.map swhidBytes })

def realExtIDId (o : ExtID) : Bytes :=
  Sha1.sha1 (extidManifest
    { extidType := asciiOfPStr o.extid_type, version := o.extid_version, extid := o.extid,
      target := swhidBytes o.target, payloadType := o.payload_type.map asciiOfPStr,
      payload := o.payload })

def realIds : IdFns :=
  { origin := realOriginId, snapshot := realSnapshotId, release := realReleaseId,
    revision := realRevisionId, directory := realDirectoryId,
    rawExtrinsicMetadata := realRemId, extID := realExtIDId }

/-- the driver entry point: `roundTripWith` with the real identifier functions -/
def roundTrip (cls : String) (d : Val) : Except ErrKind (Val × Val) := roundTripWith realIds cls d

end Swh.Serde
