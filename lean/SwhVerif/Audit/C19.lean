import SwhVerif.Props.C19
#print axioms Swh.C19.names_unique
#print axioms Swh.C19.repair_total
#print axioms Swh.C19.entries_preserved
#print axioms Swh.C19.renamed_suffix
#print axioms Swh.C19.entries_from_pairs
#print axioms Swh.C19.names_clean
#print axioms Swh.C19.wf_preserved
#print axioms Swh.C19.flag_iff_dup
#print axioms Swh.C19.winner_keeps_name
#print axioms Swh.C19.id_of_original
#print axioms Swh.C19.no_dup_unchanged
#print axioms Swh.C19.id_eq
#print axioms Swh.C19.repaired_manifest_ne
#print axioms Swh.C19.repaired_check_ok
#print axioms Swh.C19.repaired_check_ok_of_injective
