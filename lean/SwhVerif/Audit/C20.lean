import SwhVerif.Props.C20
#print axioms Swh.C20.toposort_perm
#print axioms Swh.C20.toposort_parents_first
#print axioms Swh.C20.run_perm
#print axioms Swh.C20.run_parents_first
#print axioms Swh.C20.run_never_stuck
#print axioms Swh.C20.run_never_stuck_length
#print axioms Swh.C20.prefix_parents_first
#print axioms Swh.C20.run_extends
#print axioms Swh.C20.fifo_isRun
#print axioms Swh.C20.lifo_isRun
#print axioms Swh.C20.toposortBy_isRun
#print axioms Swh.C20.isRun_exact
