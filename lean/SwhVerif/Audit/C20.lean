import SwhVerif.Props.C20
#print axioms Swh.C20.toposort_perm
#print axioms Swh.C20.toposort_parents_first
