import SwhVerif.Props.C01
#print axioms Swh.C01.wf_empty
#print axioms Swh.C01.update_chunks
#print axioms Swh.C01.chunking_irrelevant
#print axioms Swh.C01.fromFile_reads
#print axioms Swh.C01.blocks_ok
#print axioms Swh.C01.blockSize_pos
#print axioms Swh.C01.routes_agree
#print axioms Swh.C01.git_stream_is_blob
#print axioms Swh.C01.plain_stream_is_data
#print axioms Swh.C01.default_names
#print axioms Swh.C01.new_error_iff
#print axioms Swh.C01.mk_error
#print axioms Swh.C01.copy_independent
