import SwhVerif.Props.C05
#print axioms Swh.C05.sortBranches_perm
#print axioms Swh.C05.snapshot_perm
#print axioms Swh.C05.snapshotId_perm
#print axioms Swh.C05.snapshotManifest_perm
#print axioms Swh.C05.decode_snapshotBody
#print axioms Swh.C05.strip_snapshotManifest
#print axioms Swh.C05.snapshotManifest_injective
#print axioms Swh.C05.unresolved_spec
#print axioms Swh.C05.unresolved_sorted
#print axioms Swh.C05.format_raises_iff
#print axioms Swh.C05.format_error_carries_list
#print axioms Swh.C05.id_ignores_unresolved
#print axioms Swh.C05.strict_manifest_eq
#print axioms Swh.C05.kind_table
