import SwhVerif.Props.C16
#print axioms Swh.C16.offset_roundtrip
#print axioms Swh.C16.fromNumericOffset_ok
#print axioms Swh.C16.pads_zero
#print axioms Swh.C16.minus_zero_iff
#print axioms Swh.C16.offset_bytes_verbatim
#print axioms Swh.C16.formatDate_exact
#print axioms Swh.C16.formatDate_integer
#print axioms Swh.C16.seconds_floor
#print axioms Swh.C16.offset_kept
#print axioms Swh.C16.datetime_roundtrip
#print axioms Swh.C16.toDatetime_instant
#print axioms Swh.C16.range_reject_iff
#print axioms Swh.C16.bounds_table
