import SwhVerif.Props.C03
#print axioms Swh.C03.revisionHeaders_wf
#print axioms Swh.C03.parseCommit_revisionManifest
#print axioms Swh.C03.revisionManifest_injective
#print axioms Swh.C03.personLine_dated
#print axioms Swh.C03.personLine_undated
#print axioms Swh.C03.revision_legacy_headers
#print axioms Swh.C03.parents_in_order
#print axioms Swh.C03.date_needs_person
