import SwhVerif.Props.C10
#print axioms Swh.C10.inv_init
#print axioms Swh.C10.inv_step
#print axioms Swh.C10.inv_run
#print axioms Swh.C10.run_outputs
#print axioms Swh.C10.no_stale_hash
#print axioms Swh.C10.acyclic_of_no_cycle
#print axioms Swh.C10.no_stale_hash_of_no_cycle
#print axioms Swh.C10.no_stale_hash_final
#print axioms Swh.C10.fresh_spec
#print axioms Swh.C10.delItem_keeps_other_links
#print axioms Swh.C10.delItem_keeps_other_links_nested
#print axioms Swh.C10.delAt_removes_exactly_one
#print axioms Swh.C10.exOps_acyclic
#print axioms Swh.C10.exDirOps_acyclic
#print axioms Swh.C10.exPermOps_acyclic
