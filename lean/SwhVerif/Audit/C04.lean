import SwhVerif.Props.C04
#print axioms Swh.C04.releaseHeaders_wf
#print axioms Swh.C04.parseTag_releaseManifest
#print axioms Swh.C04.releaseManifest_injective
#print axioms Swh.C04.targetTypeToGit_table
#print axioms Swh.C04.targetTypeToGit_injective
#print axioms Swh.C04.date_needs_tagger
