import SwhVerif.Props.C02
#print axioms Swh.C02.dirManifest_perm
#print axioms Swh.C02.dirId_perm
#print axioms Swh.C02.decode_dirBody
#print axioms Swh.C02.strip_dirManifest
#print axioms Swh.C02.dirManifest_injective
#print axioms Swh.C02.sort_is_git_order
#print axioms Swh.C02.manifest_in_git_order
#print axioms Swh.C02.oct_git
#print axioms Swh.C02.oct_roundtrip
#print axioms Swh.C02.only_entries
