import SwhVerif.Props.C14
#print axioms Swh.C14.sound_run
#print axioms Swh.C14.acyclic_of_no_cycle
#print axioms Swh.C14.collected_reported
#print axioms Swh.C14.collect_complete
#print axioms Swh.C14.collect_reports_unmarked
#print axioms Swh.C14.unmarked_after_change
#print axioms Swh.C14.collect_idempotent
#print axioms Swh.C14.reset_then_all
#print axioms Swh.C14.exOps_acyclic
