import SwhVerif.Props.C11
#print axioms Swh.C11.frozen_eq_hash
#print axioms Swh.C11.frozen_eq_implies_hash_eq
#print axioms Swh.C11.eq_implies_hash_eq
#print axioms Swh.C11.same_args_equal
#print axioms Swh.C11.eq_flags_table
#print axioms Swh.C11.construct_copy_isolated
#print axioms Swh.C11.construct_alias_not_isolated
