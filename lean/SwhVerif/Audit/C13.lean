import SwhVerif.Props.C13
#print axioms Swh.C13.filter_eq_prune
#print axioms Swh.C13.emptinessOnly_shipped
#print axioms Swh.C13.filter_named_eq_prune
#print axioms Swh.C13.filter_empty_eq_prune
#print axioms Swh.C13.filter_both_eq_prune
#print axioms Swh.C13.filter_shipped_eq_prune
#print axioms Swh.C13.filter_eq_prune_lookup
#print axioms Swh.C13.top_never_filtered
#print axioms Swh.C13.symlink_too_large_raises
#print axioms Swh.C13.export_closed
#print axioms Swh.C13.export_root
#print axioms Swh.C13.export_unique_ids
#print axioms Swh.C13.export_check
#print axioms Swh.C13.content_data
#print axioms Swh.C13.skipped_content
#print axioms Swh.C13.file_over_limit
#print axioms Swh.C13.skipped_keeps_dir_ids
