import SwhVerif.Props.C15
#print axioms Swh.C15.mem_optHeader_wf
#print axioms Swh.C15.extidHeaders_wf
#print axioms Swh.C15.parseExtid_manifest
#print axioms Swh.C15.version_line_iff
#print axioms Swh.C15.extidManifest_injective
#print axioms Swh.C15.extid_attrs_injective
#print axioms Swh.C15.remHeaders_wf
#print axioms Swh.C15.parseRem_manifest
#print axioms Swh.C15.remManifest_injective
#print axioms Swh.C15.date_only_through_second
#print axioms Swh.C15.different_second_different_manifest
#print axioms Swh.C15.timezone_irrelevant
