import SwhVerif.Props.C07
#print axioms Swh.C07.mk_id
#print axioms Swh.C07.compute_stable
#print axioms Swh.C07.mk_explicit
#print axioms Swh.C07.check_iff
#print axioms Swh.C07.check_rejects_other_id
#print axioms Swh.C07.mk_check_ok
#print axioms Swh.C07.check_rejects_unneeded_raw
#print axioms Swh.C07.check_accepts_needed_raw
#print axioms Swh.C07.evolve_id
#print axioms Swh.C07.evolve_check_ok
#print axioms Swh.C07.checkLogic_eq
#print axioms Swh.C07.idLogic_eq
#print axioms Swh.C07.swhid_tags
#print axioms Swh.C07.seven_ids
