import SwhVerif.Props.C17
#print axioms Swh.C17.inv_step
#print axioms Swh.C17.inv_query
#print axioms Swh.C17.inv_initial
#print axioms Swh.C17.sound
#print axioms Swh.C17.sound_explicit
#print axioms Swh.C17.terminates
#print axioms Swh.C17.terminates_result
#print axioms Swh.C17.filter_exact
#print axioms Swh.C17.callback_once
#print axioms Swh.C17.callback_once_perm
#print axioms Swh.C17.correct_ofFun
#print axioms Swh.C17.correct_runScript
#print axioms Swh.C17.correct_runScriptIds
