import SwhVerif.Props.C18
#print axioms Swh.C18.identify_no_crash
#print axioms Swh.C18.identify_designated
#print axioms Swh.C18.usage_error_iff_documented
#print axioms Swh.C18.verify_exit_iff
#print axioms Swh.C18.flags_do_not_change_object
#print axioms Swh.C18.cli_params
