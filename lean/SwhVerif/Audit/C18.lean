import SwhVerif.Props.C18
#print axioms Swh.C18.identify_no_crash
#print axioms Swh.C18.identify_designated
#print axioms Swh.C18.usage_error_iff_documented
#print axioms Swh.C18.verify_exit_iff
#print axioms Swh.C18.flags_do_not_change_object
#print axioms Swh.C18.cli_params
#print axioms Swh.C18.many_single
#print axioms Swh.C18.many_verify_needs_one
#print axioms Swh.C18.takeUntilError_of_no_error
#print axioms Swh.C18.many_prints_each
