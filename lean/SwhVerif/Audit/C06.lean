import SwhVerif.Props.C06
#print axioms Swh.C06.readTree_is_readNode
#print axioms Swh.C06.readTree_total
#print axioms Swh.C06.readNode_order_indep
#print axioms Swh.C06.readTree_order_indep
#print axioms Swh.C06.rootId_order_indep
#print axioms Swh.C06.readNode_modes
#print axioms Swh.C06.symlink_not_followed
#print axioms Swh.C06.readNode_dir_entries
#print axioms Swh.C06.normalizeTop_slashes
#print axioms Swh.C06.normalizeTop_root_slashes
#print axioms Swh.C06.nested_lookup
#print axioms Swh.C06.nested_lookup_empty_component
#print axioms Swh.C06.nested_lookup_subdir
#print axioms Swh.C06.pruneEmpty_git
#print axioms Swh.C06.pruneEmpty_git_total
#print axioms Swh.C06.walk_eq_recursive
