import SwhVerif.Props.C08
#print axioms Swh.C08.unquote_escapeOrigin
#print axioms Swh.C08.unquoteToBytes_quote
#print axioms Swh.C08.utf8_roundtrip
#print axioms Swh.C08.origin_text_safe
#print axioms Swh.C08.path_text_safe
#print axioms Swh.C08.lines_roundtrip
#print axioms Swh.C08.lines_roundtrip_unlimited
#print axioms Swh.C08.wf_valueWF
#print axioms Swh.C08.parse_print
#print axioms Swh.C08.parse_print_unlimited
#print axioms Swh.C08.print_in_grammar
#print axioms Swh.C08.print_shape
#print axioms Swh.C08.to_extended_text
#print axioms Swh.C08.to_qualified_text
#print axioms Swh.C08.small_lt
#print axioms Swh.C08.exQual_wf
