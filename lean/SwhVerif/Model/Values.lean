import SwhVerif.Base.Bytes
import SwhVerif.Gen.Tables
/-!
  Model of the value semantics of model objects (C11): the frozen mapping's order-free
  equality and hash, attrs-generated equality/hash over the `eq` fields, and a store model of
  aliasing between a constructor's container argument and the object built from it.
-/
namespace Swh.Values
open Swh

/-! ### frozen mappings (`collections.ImmutableDict`) -/

/-- items of a mapping with byte-string keys (distinct), in insertion order -/
abbrev Items (V : Type) := List (Bytes × V)

/-- `Mapping.__eq__`: same items, whatever the insertion order -/
def mapEq {V} (a b : Items V) : Prop := a.Perm b

/-- `hash(tuple(sorted(self.data)))` with an uninterpreted tuple hash -/
def mapHash {V} (hashTuple : Items V → Nat) (a : Items V) : Nat :=
  hashTuple (sortByKey (fun kv => kv.1) a)

/-! ### attrs-generated `__eq__` / `__hash__` -/

/-- a model object as a function from field names to (already hashable) field values -/
abbrev Obj (V : Type) := String → V

/-- the fields taking part in comparison, from the regenerated attrs table -/
def eqFields (cls : String) : List String :=
  match Gen.classFields.find? (·.1 = cls) with
  | some (_, fs) => (fs.filter (fun f => f.2.1)).map (·.1)
  | none => []

def objEq {V} [DecidableEq V] (cls : String) (a b : Obj V) : Bool :=
  (eqFields cls).all (fun f => a f = b f)

def objHash {V} (hashTuple : List V → Nat) (cls : String) (a : Obj V) : Nat :=
  hashTuple ((eqFields cls).map a)

/-! ### aliasing: a store of mutable containers -/

abbrev Loc := Nat

/-- mutable dictionaries living at locations (Python object identity) -/
structure Store (V : Type) where
  cells : Loc → Items V
  next : Loc            -- first unused location

/-- how a constructor treats its container argument -/
inductive Mode where
  | copy     -- `dict(data)`: a fresh container holding the same items
  | alias    -- keeps a reference to the caller's container
  deriving DecidableEq, Repr

/-- build an object from the container at `arg`; returns the location the object reads from -/
def construct {V} (m : Mode) (s : Store V) (arg : Loc) : Store V × Loc :=
  match m with
  | .alias => (s, arg)
  | .copy => ({ cells := fun l => if l = s.next then s.cells arg else s.cells l, next := s.next + 1 }, s.next)

/-- the caller mutates one of ITS containers (any location it can name: below `next` at
    construction time) -/
def mutate {V} (s : Store V) (l : Loc) (f : Items V → Items V) : Store V :=
  { s with cells := fun x => if x = l then f (s.cells x) else s.cells x }

def mutateAll {V} (s : Store V) (ops : List (Loc × (Items V → Items V))) : Store V :=
  ops.foldl (fun s op => mutate s op.1 op.2) s

/-- what can be observed of the object: the items it reads -/
def observe {V} (s : Store V) (obj : Loc) : Items V := s.cells obj

end Swh.Values
