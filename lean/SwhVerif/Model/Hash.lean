import SwhVerif.Base.Bytes
import SwhVerif.Base.Err
import SwhVerif.Gen.Tables
/-!
  Model of `hashutil.MultiHash` (C01).  A hashlib object is modelled by *the bytes fed to it so
  far* (hashlib's contract: `update(a); update(b)` ≡ `update(a+b)`, `copy()` is independent); the
  digest is an uninterpreted function of the algorithm and those bytes.  Hashers live in a heap
  (object identity matters for `copy`).
-/
namespace Swh.Hash
open Swh

abbrev Name := String

def isKnown (n : Name) : Bool := Gen.algorithms.contains n
/-- `algo.endswith("_git")`, through the regenerated table of such names -/
def isGit (n : Name) : Bool := (Gen.gitAlgorithms.find? (·.1 = n)).isSome
/-- `algo[:-4]` for git-flavoured names -/
def baseName (n : Name) : Name :=
  match Gen.gitAlgorithms.find? (·.1 = n) with
  | some p => p.2
  | none => n

def blobTy : Bytes := asc ['b','l','o','b']

/-- `_new_hash(algo, length)`: the bytes pre-fed to the new hasher -/
def newHash (n : Name) (length : Option Nat) : Except ErrKind Bytes :=
  if !isKnown n then .error .valueError
  else if isGit n then
    match length with
    | none => .error .valueError
    | some l => .ok (gitHeader blobTy l)
  else .ok []

/-- a hashlib object: base algorithm and everything fed so far -/
structure Cell where
  algo : Name
  fed : Bytes
  deriving Repr, DecidableEq

abbrev Heap := List Cell

/-- a `MultiHash`: names bound to heap cells (`state`), and the tracked length -/
structure MH where
  state : List (Name × Nat)
  length : Option Nat
  deriving Repr, DecidableEq

/-- `MultiHash(hash_names, length)`; names are processed in the given order (`hash_names` is a
    set in every caller: names are distinct) -/
def mkMHAux (length : Option Nat) : Heap → MH → List Name → Except ErrKind (Heap × MH)
  | h, m, [] => .ok (h, m)
  | h, m, n :: ns =>
    if n = "length" then mkMHAux length h { m with length := some 0 } ns
    else match newHash n length with
      | .error e => .error e
      | .ok pre => mkMHAux length (h ++ [⟨baseName n, pre⟩]) { m with state := m.state ++ [(n, h.length)] } ns

def mkMH (h : Heap) (names : List Name) (length : Option Nat) : Except ErrKind (Heap × MH) :=
  mkMHAux length h ⟨[], none⟩ names

def feed (h : Heap) (i : Nat) (chunk : Bytes) : Heap :=
  match h[i]? with
  | some c => h.set i { c with fed := c.fed ++ chunk }
  | none => h

/-- `MultiHash.update(chunk)` -/
def update (h : Heap) (m : MH) (chunk : Bytes) : Heap × MH :=
  (m.state.foldl (fun h e => feed h e.2 chunk) h,
   { m with length := m.length.map (· + chunk.length) })

/-- `MultiHash.copy()` (repaired: returns the new object): every hasher is copied into a fresh
    cell, the length is carried over -/
def copy (h : Heap) (m : MH) : Heap × MH :=
  let cells := m.state.filterMap (fun e => h[e.2]?)
  (h ++ cells,
   { state := (m.state.zip (List.range m.state.length)).map (fun (e, k) => (e.1, h.length + k)),
     length := m.length })

/-- fold of updates over a chunk list -/
def updates (h : Heap) (m : MH) (chunks : List Bytes) : Heap × MH :=
  chunks.foldl (fun s c => update s.1 s.2 c) (h, m)

/-- interleaved updates on an original and its copy -/
def runOps (h : Heap) (mo mc : MH) : List (Bool × Bytes) → Heap × MH × MH
  | [] => (h, mo, mc)
  | (true, c) :: ops => let (h', mo') := update h mo c; runOps h' mo' mc ops
  | (false, c) :: ops => let (h', mc') := update h mc c; runOps h' mo mc' ops

def chunksOf (who : Bool) (ops : List (Bool × Bytes)) : List Bytes :=
  (ops.filter (fun o => o.1 == who)).map (·.2)

/-- what `read(bs)` returns, call after call, for an in-memory or regular file holding `data` -/
def blocks (bs : Nat) : Nat → Bytes → List Bytes
  | 0, _ => []
  | f + 1, d => if d.isEmpty then [] else d.take bs :: blocks bs f (d.drop bs)

def fileReads (bs : Nat) (data : Bytes) : List Bytes := blocks bs (data.length + 1) data ++ [[]]

/-- `MultiHash.from_file`: update until the first empty read -/
def fromReads (h : Heap) (m : MH) : List Bytes → Heap × MH
  | [] => (h, m)
  | r :: rs => if r.isEmpty then (h, m) else
      let (h', m') := update h m r
      fromReads h' m' rs

/-- `MultiHash.from_data(data, hash_names)` = `from_file(BytesIO(data), length=len(data))` -/
def fromData (h : Heap) (data : Bytes) (names : List Name) : Except ErrKind (Heap × MH) :=
  match mkMH h names (some data.length) with
  | .error e => .error e
  | .ok (h', m) => .ok (fromReads h' m (fileReads Gen.hashBlockSize data))

/-- bytes fed to the hasher bound to `name` -/
def fedOf (h : Heap) (m : MH) (n : Name) : Option Bytes :=
  match m.state.find? (·.1 = n) with
  | some e => (h[e.2]?).map (·.fed)
  | none => none

def keys (m : MH) : List Name := m.state.map (·.1) ++ (if m.length.isSome then ["length"] else [])

/-- git's blob object for `data` (the specification side of "sha1_git is git's blob id") -/
def gitBlob (data : Bytes) : Bytes := gitObject blobTy data

end Swh.Hash
