import SwhVerif.Model.Toposort
/-!
# Kahn's algorithm, generalised over the work-list discipline

`SwhVerif.Model.Toposort` mirrors `swh/model/toposort.py` with its FIFO `deque`.  The *order* in
which the function yields revisions depends on that discipline; the *property* (each revision once,
parents first) does not.  This file keeps the first pass of the FIFO model unchanged
(`Swh.Toposort.initPass`: counters `in_degree`, the `children` lists in insertion order, the initial
roots) and abstracts the second pass:

* the state is `WState = (inDeg : RevId → Int, work : List Rev)`; `work` is the *bag* of revisions
  that have been enqueued and not yet yielded (a list, used up to permutation);
* a **step choosing position `k`** (`step?`) removes the `k`-th element `r` of `work`, yields it and
  runs `for child in children[r.id]` exactly like the FIFO model (`relax`, a fold of
  `Swh.Toposort.relaxStep`: decrement `in_degree[child.id]`, the child becomes ready when the counter
  reaches `0`); the new work list may be **any permutation** of
  `(work without its k-th element) ++ newlyReady`.  To stay executable the step takes the new work
  list from the schedule (`Move.newWork`) and checks the permutation with `List.isPerm`;
* `runSched` runs a whole schedule; `IsScheduledRun log order` says `order` is the yield sequence
  of some schedule that ends with an empty work list.  A deque (FIFO), a stack (LIFO), popping from
  the right, a priority queue, a recursive depth-first release ... are all such schedules;
* `toposortBy pick` is the family of deterministic instances "pop the element at position
  `pick work`, append the newly ready children": `pick = fun _ => 0` is the FIFO model,
  `pick = fun w => w.length - 1` is a stack;
* `isRun log order` is the executable **run checker**: it replays `order` against the abstract
  algorithm without being given a schedule.

## What exactly `isRun` computes

The bag is a `List Rev` compared with the derived `DecidableEq Rev` (so on *whole revisions*: id and
parent list), one occurrence consumed per yield with `List.erase`:

```
state := (initPass log).inDeg, (initPass log).queue          -- the roots, in log order
for r in order:
    if r ∉ work: reject
    work := work.erase r                                     -- first occurrence only
    (inDeg, ready) := relax children inDeg r                 -- for child in children[r.id]: ...
    work := work ++ ready
accept iff work is empty
```

`Swh.ToposortGen.isRun_iff_scheduled` (in `SwhVerif.Lemmas.ToposortGen`) proves
`isRun log order = true ↔ IsScheduledRun log order`, on every log (well-formed or not).

Cost: one `List.elem` + `List.erase` over the bag per yielded revision, plus the same function-valued
dictionaries as the FIFO model.
-/
namespace Swh.ToposortGen
open Swh.Toposort

/-- state of the second pass: the counters and the bag of enqueued, not yet yielded revisions -/
structure WState where
  inDeg : RevId → Int
  work : List Rev

/-- state at the start of the second pass (the work list holds the parentless revisions) -/
def init (log : List Rev) : WState := ⟨(initPass log).inDeg, (initPass log).queue⟩

/-- `for child in children[r.id]: in_degree[child.id] -= 1; if in_degree[child.id] == 0: <ready>`:
    the new counters and the newly ready children, in the order in which they became ready -/
def relax (ch : RevId → List Rev) (inDeg : RevId → Int) (r : Rev) : (RevId → Int) × List Rev :=
  (ch r.id).foldl relaxStep (inDeg, [])

/-! ## steps under an explicit schedule -/

/-- one move of a schedule: the position popped, and the work list after the step -/
structure Move where
  pos : Nat
  newWork : List Rev

/-- a step choosing position `m.pos`: yields the popped revision.  `none` if the position is out of
    range or `m.newWork` is not a permutation of the remaining work plus the newly ready children. -/
def step? (ch : RevId → List Rev) (s : WState) (m : Move) : Option (Rev × WState) :=
  match s.work[m.pos]? with
  | none => none
  | some r =>
    let n := relax ch s.inDeg r
    if m.newWork.isPerm (s.work.eraseIdx m.pos ++ n.2) then some (r, ⟨n.1, m.newWork⟩) else none

/-- run a schedule: the yielded revisions and the final state -/
def runSched (ch : RevId → List Rev) : WState → List Move → Option (List Rev × WState)
  | s, [] => some ([], s)
  | s, m :: ms =>
    match step? ch s m with
    | none => none
    | some (r, s') =>
      match runSched ch s' ms with
      | none => none
      | some (out, s'') => some (r :: out, s'')

/-- `order` is the yield sequence of a complete run of the abstract algorithm under *some*
    work-list discipline -/
def IsScheduledRun (log order : List Rev) : Prop :=
  ∃ (sched : List Move) (s' : WState),
    runSched (initPass log).children (init log) sched = some (order, s') ∧ s'.work = []

/-! ## deterministic instances -/

/-- the `while work` loop with the popped position chosen by `pick` and the newly ready children
    appended; same fuel convention as `Swh.Toposort.loop` -/
def loopBy (pick : List Rev → Nat) (ch : RevId → List Rev) : Nat → WState → List Rev
  | 0, _ => []
  | fuel + 1, s =>
    match s.work[pick s.work]? with
    | none => []
    | some r =>
      let n := relax ch s.inDeg r
      r :: loopBy pick ch fuel ⟨n.1, s.work.eraseIdx (pick s.work) ++ n.2⟩

/-- Kahn's algorithm popping position `pick work` (`fun _ => 0`: FIFO; `fun w => w.length - 1`:
    a stack).  A `pick` that answers out of range stops the run. -/
def toposortBy (pick : List Rev → Nat) (log : List Rev) : List Rev :=
  loopBy pick (initPass log).children (2 * log.length + 1) (init log)

/-! ## the run checker -/

/-- replay a (prefix of a) yield sequence: the state reached, or `none` as soon as a yielded
    revision is not in the work bag -/
def replay (ch : RevId → List Rev) : WState → List Rev → Option WState
  | s, [] => some s
  | s, r :: rs =>
    if r ∈ s.work then
      let n := relax ch s.inDeg r
      replay ch ⟨n.1, s.work.erase r ++ n.2⟩ rs
    else none

/-- `order` is accepted as a complete run on `log`: every yielded revision was in the work bag when
    yielded, and the bag is empty at the end -/
def isRun (log order : List Rev) : Bool :=
  match replay (initPass log).children (init log) order with
  | some s => s.work.isEmpty
  | none => false

end Swh.ToposortGen
