/-!
# Executable model of `swh/model/toposort.py` (Kahn's algorithm)

The Python function is a generator over a "revision log" (an iterable of dicts with keys
`"id"` and `"parents"`).  The model keeps exactly the two fields the algorithm reads and mirrors
the two passes statement by statement, including the *order* in which revisions are yielded:

* pass 1, over the input in order: `in_degree[rev.id] = len(parents)` (a dict: a later revision
  with the same id overwrites), `if not parents: queue.append(rev)`,
  `for parent in parents: children[parent].append(rev)` (a repeated parent id appends twice);
* pass 2: `rev = queue.popleft(); yield rev;` then, for each `child` of `children[rev.id]` in
  insertion order, `in_degree[child.id] -= 1; if in_degree[child.id] == 0: queue.append(child)`.

The dicts are total functions updated point-wise (`in_degree : RevId → Int`, default `0`, never
read at an unset key because every child is a revision of the log; `children : RevId → List Rev`,
default `[]` like the `defaultdict(list)`).  `in_degree` is an `Int` because the Python counter can
go negative on ill-formed inputs (duplicated ids) and a negative counter must not compare equal
to `0`.

Termination: the `while queue` loop is made total with fuel `2 * |log| + 1`.  This is never
exhausted, on any input: a revision is enqueued either by pass 1 (at most `|log|` times overall) or
when the counter of its id moves from `1` to `0`, which happens at most once per id because the
counters only decrease during pass 2.  `Swh.C20` proves (implicitly, through completeness of the
output) that the fuel is not exhausted on well-formed logs.
-/
namespace Swh

abbrev RevId := Nat

/-- the two fields of a revision that `toposort` reads -/
structure Rev where
  id : RevId
  parents : List RevId
deriving DecidableEq, Repr, Inhabited

namespace Toposort

/-- `d[k] = v` on a dict seen as a total function -/
def setDeg (f : RevId → Int) (k : RevId) (v : Int) : RevId → Int :=
  fun x => if x = k then v else f x

/-- `children[p].append(r)` -/
def addChild (ch : RevId → List Rev) (p : RevId) (r : Rev) : RevId → List Rev :=
  fun x => if x = p then ch x ++ [r] else ch x

/-- the three pieces of state built by the first pass -/
structure State where
  inDeg : RevId → Int
  children : RevId → List Rev
  queue : List Rev

def State.empty : State := ⟨fun _ => 0, fun _ => [], []⟩

/-- body of the first `for rev in revision_log` loop -/
def initStep (s : State) (r : Rev) : State :=
  { inDeg := setDeg s.inDeg r.id r.parents.length
    queue := if r.parents.isEmpty then s.queue ++ [r] else s.queue
    children := r.parents.foldl (fun ch p => addChild ch p r) s.children }

/-- the first pass -/
def initPass (log : List Rev) : State := log.foldl initStep State.empty

/-- body of `for child in children[rev.id]`: decrement, enqueue when the counter reaches `0` -/
def relaxStep (s : (RevId → Int) × List Rev) (c : Rev) : (RevId → Int) × List Rev :=
  let d := s.1 c.id - 1
  (setDeg s.1 c.id d, if d = 0 then s.2 ++ [c] else s.2)

/-- the `while queue` loop; the result is the sequence of yielded revisions -/
def loop (ch : RevId → List Rev) : Nat → (RevId → Int) → List Rev → List Rev
  | 0, _, _ => []
  | _ + 1, _, [] => []
  | fuel + 1, inDeg, r :: q =>
    let s := (ch r.id).foldl relaxStep (inDeg, q)
    r :: loop ch fuel s.1 s.2

end Toposort

open Toposort in
/-- `list(toposort(log))` -/
def toposort (log : List Rev) : List Rev :=
  let s := initPass log
  loop s.children (2 * log.length + 1) s.inDeg s.queue

end Swh
