import SwhVerif.Base.Bytes
import SwhVerif.Base.Headers
import SwhVerif.Gen.Tables
import SwhVerif.Model.Directory
import SwhVerif.Model.Snapshot
import SwhVerif.Model.Toposort
import SwhVerif.Model.Time
