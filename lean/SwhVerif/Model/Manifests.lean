import SwhVerif.Base.Headers
import SwhVerif.Model.Time
/-!
  Models of the header-list manifests of `git_objects.py`: revisions (git commits), releases
  (git tags), ExtIDs and raw extrinsic metadata, and independent parsers for each, built on
  the shared header codec (C03, C04, C15).
-/
namespace Swh

/-! ### peeling a parsed header list -/

def takeKey (k : Bytes) : List Header → Option (Bytes × List Header)
  | (k', v) :: rest => if k' = k then some (v, rest) else none
  | [] => none

def takeKeyOpt (k : Bytes) (hs : List Header) : Option Bytes × List Header :=
  match takeKey k hs with
  | some (v, r) => (some v, r)
  | none => (none, hs)

def takeKeyMany (k : Bytes) : List Header → List Bytes × List Header
  | (k', v) :: rest =>
    if k' = k then
      let (vs, r) := takeKeyMany k rest
      (v :: vs, r)
    else ([], (k', v) :: rest)
  | [] => ([], [])

/-! ### revisions -/

structure DateV where
  seconds : Int
  micros : Nat
  offset : Bytes
  deriving DecidableEq, Repr

def DateV.tup (d : DateV) : Int × Nat × Bytes := (d.seconds, d.micros, d.offset)

structure RevAttrs where
  directory : Bytes
  parents : List Bytes
  author : Option Bytes
  date : Option DateV
  committer : Option Bytes
  committerDate : Option DateV
  extraHeaders : List Header
  /-- `metadata["extra_headers"]` when the legacy metadata carries them -/
  metaHeaders : Option (List Header)
  message : Option Bytes
  deriving Repr

def kTree : Bytes := asc ['t','r','e','e']
def kParent : Bytes := asc ['p','a','r','e','n','t']
def kAuthor : Bytes := asc ['a','u','t','h','o','r']
def kCommitter : Bytes := asc ['c','o','m','m','i','t','t','e','r']
def commitTy : Bytes := asc ['c','o','m','m','i','t']

/-- attribute wins; else the legacy metadata's headers -/
def RevAttrs.effectiveHeaders (r : RevAttrs) : List Header :=
  if r.extraHeaders.isEmpty then r.metaHeaders.getD [] else r.extraHeaders

def personLine (fullname : Bytes) (d : Option DateV) : Bytes := formatAuthor fullname (d.map DateV.tup)

def RevAttrs.usedParents (r : RevAttrs) : List Bytes := r.parents.filter (fun p => !p.isEmpty)

def revisionHeaders (r : RevAttrs) : List Header :=
  [(kTree, hexLower r.directory)]
  ++ r.usedParents.map (fun p => (kParent, hexLower p))
  ++ (match r.author with | some a => [(kAuthor, personLine a r.date)] | none => [])
  ++ (match r.committer with | some c => [(kCommitter, personLine c r.committerDate)] | none => [])
  ++ r.effectiveHeaders

def revisionBody (r : RevAttrs) : Bytes := fmtHeaders (revisionHeaders r) r.message
def revisionManifest (r : RevAttrs) : Bytes := gitObject commitTy (revisionBody r)

structure ParsedCommit where
  tree : Bytes
  parents : List Bytes
  author : Option Bytes
  committer : Option Bytes
  extra : List Header
  message : Option Bytes
  deriving DecidableEq, Repr

def parseCommitHs (hs : List Header) (msg : Option Bytes) : Option ParsedCommit :=
  match takeKey kTree hs with
  | none => none
  | some (t, r1) =>
    let pr := takeKeyMany kParent r1
    let ar := takeKeyOpt kAuthor pr.2
    let cr := takeKeyOpt kCommitter ar.2
    some ⟨t, pr.1, ar.1, cr.1, cr.2, msg⟩

/-- independent commit parser: raw git object → fields -/
def parseCommit (obj : Bytes) : Option ParsedCommit :=
  match stripGitHeader commitTy obj with
  | none => none
  | some body =>
    match parseHeaders body with
    | none => none
    | some (hs, msg) => parseCommitHs hs msg

/-! ### releases -/

structure RelAttrs where
  target : Bytes
  /-- git type of the target, looked up in the regenerated `target_type_to_git` table -/
  targetType : Bytes
  name : Bytes
  author : Option Bytes
  date : Option DateV
  message : Option Bytes
  deriving Repr

def kObject : Bytes := asc ['o','b','j','e','c','t']
def kType : Bytes := asc ['t','y','p','e']
def kTag : Bytes := asc ['t','a','g']
def kTagger : Bytes := asc ['t','a','g','g','e','r']
def tagTy : Bytes := asc ['t','a','g']

def releaseHeaders (r : RelAttrs) : List Header :=
  [(kObject, hexLower r.target), (kType, r.targetType), (kTag, r.name)]
  ++ (match r.author with | some a => [(kTagger, personLine a r.date)] | none => [])

def releaseBody (r : RelAttrs) : Bytes := fmtHeaders (releaseHeaders r) r.message
def releaseManifest (r : RelAttrs) : Bytes := gitObject tagTy (releaseBody r)

structure ParsedTag where
  object : Bytes
  type : Bytes
  tag : Bytes
  tagger : Option Bytes
  message : Option Bytes
  deriving DecidableEq, Repr

def parseTagHs (hs : List Header) (msg : Option Bytes) : Option ParsedTag :=
  match takeKey kObject hs with
  | none => none
  | some (o, r1) =>
    match takeKey kType r1 with
    | none => none
    | some (t, r2) =>
      match takeKey kTag r2 with
      | none => none
      | some (n, r3) =>
        let tr := takeKeyOpt kTagger r3
        if tr.2.isEmpty then some ⟨o, t, n, tr.1, msg⟩ else none

def parseTag (obj : Bytes) : Option ParsedTag :=
  match stripGitHeader tagTy obj with
  | none => none
  | some body =>
    match parseHeaders body with
    | none => none
    | some (hs, msg) => parseTagHs hs msg

/-- `target_type_to_git` through the regenerated table -/
def targetTypeToGit (t : Bytes) : Option Bytes :=
  (Gen.targetTypeToGitB.find? (fun p => p.1 = t)).map (·.2)

def optHeader (k : Bytes) (v : Option Bytes) : List Header :=
  match v with | some x => [(k, x)] | none => []

/-! ### ExtID -/

structure ExtidAttrs where
  extidType : Bytes
  version : Int
  extid : Bytes
  target : Bytes          -- text of the core SWHID
  payloadType : Option Bytes
  payload : Option Bytes
  deriving Repr, DecidableEq

def kExtidType : Bytes := asc ['e','x','t','i','d','_','t','y','p','e']
def kExtidVersion : Bytes := asc ['e','x','t','i','d','_','v','e','r','s','i','o','n']
def kExtid : Bytes := asc ['e','x','t','i','d']
def kTarget : Bytes := asc ['t','a','r','g','e','t']
def kPayloadType : Bytes := asc ['p','a','y','l','o','a','d','_','t','y','p','e']
def kPayload : Bytes := asc ['p','a','y','l','o','a','d']
def extidTy : Bytes := asc ['e','x','t','i','d']

/-- the version line is written only for a non-zero version -/
def ExtidAttrs.versionLine (e : ExtidAttrs) : Option Bytes :=
  if e.version ≠ 0 then some (decInt e.version) else none

def extidHeaders (e : ExtidAttrs) : List Header :=
  [(kExtidType, e.extidType)]
  ++ optHeader kExtidVersion e.versionLine
  ++ [(kExtid, e.extid), (kTarget, e.target)]
  ++ optHeader kPayloadType e.payloadType
  ++ optHeader kPayload e.payload

def extidBody (e : ExtidAttrs) : Bytes := fmtHeaders (extidHeaders e) none
def extidManifest (e : ExtidAttrs) : Bytes := gitObject extidTy (extidBody e)

structure ParsedExtid where
  extidType : Bytes
  version : Option Bytes
  extid : Bytes
  target : Bytes
  payloadType : Option Bytes
  payload : Option Bytes
  deriving DecidableEq, Repr

def parseExtidHs (hs : List Header) (msg : Option Bytes) : Option ParsedExtid :=
  match takeKey kExtidType hs with
  | none => none
  | some (t, r1) =>
    let vr := takeKeyOpt kExtidVersion r1
    match takeKey kExtid vr.2 with
    | none => none
    | some (x, r2) =>
      match takeKey kTarget r2 with
      | none => none
      | some (tg, r3) =>
        let pt := takeKeyOpt kPayloadType r3
        let pl := takeKeyOpt kPayload pt.2
        if pl.2.isEmpty && msg.isNone then some ⟨t, vr.1, x, tg, pt.1, pl.1⟩ else none

def parseExtid (obj : Bytes) : Option ParsedExtid :=
  match stripGitHeader extidTy obj with
  | none => none
  | some body =>
    match parseHeaders body with
    | none => none
    | some (hs, msg) => parseExtidHs hs msg

/-! ### raw extrinsic metadata -/

structure RemAttrs where
  target : Bytes           -- text of the extended SWHID
  discovery : DT           -- the aware datetime given to the constructor
  authorityType : Bytes
  authorityUrl : Bytes
  fetcherName : Bytes
  fetcherVersion : Bytes
  format : Bytes
  metadata : Bytes
  origin : Option Bytes
  visit : Option Nat
  snapshot : Option Bytes
  release : Option Bytes
  revision : Option Bytes
  path : Option Bytes
  directory : Option Bytes
  deriving Repr

def kDiscovery : Bytes := asc ['d','i','s','c','o','v','e','r','y','_','d','a','t','e']
def kAuthority : Bytes := asc ['a','u','t','h','o','r','i','t','y']
def kFetcher : Bytes := asc ['f','e','t','c','h','e','r']
def kFormat : Bytes := asc ['f','o','r','m','a','t']
def kOrigin : Bytes := asc ['o','r','i','g','i','n']
def kVisit : Bytes := asc ['v','i','s','i','t']
def kSnapshot : Bytes := asc ['s','n','a','p','s','h','o','t']
def kRelease : Bytes := asc ['r','e','l','e','a','s','e']
def kRevision : Bytes := asc ['r','e','v','i','s','i','o','n']
def kPath : Bytes := asc ['p','a','t','h']
def kDirectory : Bytes := asc ['d','i','r','e','c','t','o','r','y']
def remTy : Bytes := asc ['r','a','w','_','e','x','t','r','i','n','s','i','c','_','m','e','t','a','d','a','t','a']

/-- the UTC second of the discovery date: `astimezone(utc).replace(microsecond=0).timestamp()` -/
def RemAttrs.second (m : RemAttrs) : Int := m.discovery.utcMicros / 1000000

def remHeaders (m : RemAttrs) : List Header :=
  [(kTarget, m.target), (kDiscovery, decInt m.second),
   (kAuthority, m.authorityType ++ bSP :: m.authorityUrl),
   (kFetcher, m.fetcherName ++ bSP :: m.fetcherVersion),
   (kFormat, m.format)]
  ++ optHeader kOrigin m.origin
  ++ optHeader kVisit (m.visit.map dec)
  ++ optHeader kSnapshot m.snapshot
  ++ optHeader kRelease m.release
  ++ optHeader kRevision m.revision
  ++ optHeader kPath m.path
  ++ optHeader kDirectory m.directory

def remBody (m : RemAttrs) : Bytes := fmtHeaders (remHeaders m) (some m.metadata)
def remManifest (m : RemAttrs) : Bytes := gitObject remTy (remBody m)

/-- split at the last occurrence of `d` -/
def splitLast (d : Byte) (bs : Bytes) : Option (Bytes × Bytes) :=
  match splitFirst d bs.reverse with
  | some (a, b) => some (b.reverse, a.reverse)
  | none => none

structure ParsedRem where
  target : Bytes
  discovery : Bytes
  authorityType : Bytes
  authorityUrl : Bytes
  fetcherName : Bytes
  fetcherVersion : Bytes
  format : Bytes
  origin : Option Bytes
  visit : Option Bytes
  snapshot : Option Bytes
  release : Option Bytes
  revision : Option Bytes
  path : Option Bytes
  directory : Option Bytes
  metadata : Bytes
  deriving DecidableEq, Repr

def parseRemHs (hs : List Header) (msg : Option Bytes) : Option ParsedRem :=
  match takeKey kTarget hs with
  | none => none
  | some (tg, r1) =>
  match takeKey kDiscovery r1 with
  | none => none
  | some (dd, r2) =>
  match takeKey kAuthority r2 with
  | none => none
  | some (au, r3) =>
  match takeKey kFetcher r3 with
  | none => none
  | some (fe, r4) =>
  match takeKey kFormat r4 with
  | none => none
  | some (fm, r5) =>
  match splitFirst bSP au, splitLast bSP fe, msg with
  | some (at_, aurl), some (fn, fv), some md =>
    let o := takeKeyOpt kOrigin r5
    let v := takeKeyOpt kVisit o.2
    let s := takeKeyOpt kSnapshot v.2
    let rl := takeKeyOpt kRelease s.2
    let rv := takeKeyOpt kRevision rl.2
    let p := takeKeyOpt kPath rv.2
    let d := takeKeyOpt kDirectory p.2
    if d.2.isEmpty then
      some ⟨tg, dd, at_, aurl, fn, fv, fm, o.1, v.1, s.1, rl.1, rv.1, p.1, d.1, md⟩
    else none
  | _, _, _ => none

def parseRem (obj : Bytes) : Option ParsedRem :=
  match stripGitHeader remTy obj with
  | none => none
  | some body =>
    match parseHeaders body with
    | none => none
    | some (hs, msg) => parseRemHs hs msg

end Swh
