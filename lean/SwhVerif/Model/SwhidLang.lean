import SwhVerif.Model.Swhid
/-!
  The documented SWHID language (docs/persistent-identifiers.rst, DESIGN A.5), written
  independently of the parser: a declarative predicate `InLangW` and a Boolean recogniser
  `inLangW` for the driver.  Only the vocabulary (`Str`, `isPySpace`, the type tables) is shared
  with the model; literals of the grammar are spelled out here.

  `lim` is the bound on the number of digits of a line number (`none`: the grammar as documented,
  `some 4300`: what CPython's `int` lets through).
-/
namespace Swh

def hexDigits : Str := "0123456789abcdef".toList
def decDigits : Str := "0123456789".toList
def knownKeys : List Str := ["origin".toList, "visit".toList, "anchor".toList, "path".toList, "lines".toList]

/-- `swh:1:<t>:<40 lower-case hex digits>` with `t ∈ T` -/
def CoreShape (T : List Str) (s : Str) : Prop :=
  ∃ t ∈ T, ∃ h : Str, h.length = 40 ∧ (∀ c ∈ h, c ∈ hexDigits) ∧ s = "swh:1:".toList ++ t ++ ':' :: h

/-- `<dec_digit>+` -/
def IsNumber (lim : Option Nat) (a : Str) : Prop :=
  a ≠ [] ∧ (∀ c ∈ a, c ∈ decDigits) ∧ withinLimit lim a.length = true

/-- `<line_number> ["-" <line_number>]` -/
def LinesShape (lim : Option Nat) (v : Str) : Prop :=
  ∃ a, IsNumber lim a ∧ (v = a ∨ ∃ b, IsNumber lim b ∧ v = a ++ '-' :: b)

/-- `v` is the value of the last qualifier with key `k` -/
def LastVal (qs : List (Str × Str)) (k v : Str) : Prop :=
  ∃ pre post, qs = pre ++ (k, v) :: post ∧ ∀ kv ∈ post, kv.1 ≠ k

/-- the text of a qualifier list: `;k=v;k=v…` -/
def qualText (qs : List (Str × Str)) : Str := qs.flatMap (fun kv => ';' :: kv.1 ++ '=' :: kv.2)

structure QualsOK (lim : Option Nat) (qs : List (Str × Str)) : Prop where
  keys : ∀ kv ∈ qs, kv.1 ∈ knownKeys
  vals : ∀ kv ∈ qs, ';' ∉ kv.2 ∧ ∀ c ∈ kv.2, isPySpace c = false
  visit : ∀ v, LastVal qs "visit".toList v → CoreShape ["snp".toList] v
  anchor : ∀ v, LastVal qs "anchor".toList v →
    CoreShape ["dir".toList, "rev".toList, "rel".toList, "snp".toList] v
  lines : ∀ v, LastVal qs "lines".toList v → LinesShape lim v

def InLangW (lim : Option Nat) : SwhidClass → Str → Prop
  | .core, s => CoreShape coreTags s
  | .extended, s => CoreShape extTags s
  | .qualified, s => ∃ c qs, CoreShape coreTags c ∧ s = c ++ qualText qs ∧ QualsOK lim qs

/-- the documented language -/
def InLang (cls : SwhidClass) (s : Str) : Prop := InLangW none cls s

/-! ### Boolean recogniser -/

def coreShapeB (T : List Str) (s : Str) : Bool :=
  T.any (fun t =>
    let p := "swh:1:".toList ++ t ++ [':']
    p.isPrefixOf s &&
      (let h := s.drop p.length
       h.length == 40 && h.all (fun c => hexDigits.contains c)))

def isNumberB (lim : Option Nat) (a : Str) : Bool :=
  !a.isEmpty && a.all (fun c => decDigits.contains c) && withinLimit lim a.length

def linesShapeB (lim : Option Nat) (v : Str) : Bool :=
  match splitOnL '-' v with
  | [a] => isNumberB lim a
  | [a, b] => isNumberB lim a && isNumberB lim b
  | _ => false

def lastValB (qs : List (Str × Str)) (k : Str) : Option Str :=
  (qs.reverse.find? (fun kv => kv.1 == k)).map (fun kv => kv.2)

def optAll {α} (p : α → Bool) : Option α → Bool
  | none => true
  | some x => p x

def inLangW (lim : Option Nat) (cls : SwhidClass) (s : Str) : Bool :=
  match cls with
  | .core => coreShapeB coreTags s
  | .extended => coreShapeB extTags s
  | .qualified =>
    match splitOnL ';' s with
    | [] => false
    | c :: chunks =>
      coreShapeB coreTags c &&
      (let kvs := chunks.map (splitFirstL '=')
       kvs.all Option.isSome &&
       (let qs := kvs.filterMap id
        qs.all (fun kv => knownKeys.contains kv.1 && kv.2.all (fun x => !isPySpace x)) &&
        optAll (coreShapeB ["snp".toList]) (lastValB qs "visit".toList) &&
        optAll (coreShapeB ["dir".toList, "rev".toList, "rel".toList, "snp".toList])
          (lastValB qs "anchor".toList) &&
        optAll (linesShapeB lim) (lastValB qs "lines".toList)))

def inLang (cls : SwhidClass) (s : Str) : Bool := inLangW none cls s

end Swh
