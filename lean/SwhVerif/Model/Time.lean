import SwhVerif.Base.Bytes
import SwhVerif.Base.Err
import SwhVerif.Gen.Tables
/-! Model of timestamps, UTC offsets and date formatting (C16; used by C03, C04, C15). -/
namespace Swh

/-- `f"{n:02}"` -/
def pad2 (n : Nat) : Bytes := if n < 10 then bZero :: dec n else dec n

/-- `TimestampWithTimezone.from_numeric_offset`: the offset bytes `±HHMM` (hours ≥ 2 digits) -/
def formatOffset (offset : Int) (negativeUtc : Bool) : Bytes :=
  let negative := decide (offset < 0) || negativeUtc
  let a := offset.natAbs
  (if negative then bMinus else bPlus) :: (pad2 (a / 60) ++ pad2 (a % 60))

/-- `TimestampWithTimezone._parse_offset_bytes` on `sign digits` input.
    (Other inputs make CPython's `int()`/`assert` raise or be lax; they are mapped to an error
    kind here and are outside the property, which speaks of `±HHMM` bytes.) -/
def parseOffsetBytes (bs : Bytes) : Except ErrKind Int :=
  match bs with
  | [] => .error .other           -- IndexError on offset_str[0]
  | s :: rest =>
    if s ≠ bPlus ∧ s ≠ bMinus then .error .assertion
    else
      let sign : Int := if s = bMinus then -1 else 1
      let hm : Option (Nat × Nat) :=
        if bs.length ≤ 3 then (parseDec rest).map (fun h => (h, 0))
        else
          match parseDec (rest.take (rest.length - 2)), parseDec (bs.drop (bs.length - 2)) with
          | some h, some m => some (h, m)
          | _, _ => none
      match hm with
      | none => .error .valueError
      | some (h, m) =>
        let offset : Int := sign * ((h : Int) * 60 + m)
        if m ≤ 59 ∧ -32768 ≤ offset ∧ offset < 32768 then .ok offset else .ok 0

/-- `from_numeric_offset` including its assertion `tstz.offset_minutes() == offset` -/
def fromNumericOffset (offset : Int) (negativeUtc : Bool) : Except ErrKind Bytes :=
  let b := formatOffset offset negativeUtc
  match parseOffsetBytes b with
  | .ok o => if o = offset then .ok b else .error .assertion
  | .error e => .error e

/-- `Timestamp(seconds, microseconds)` validators, bounds regenerated from the live class -/
def mkTimestamp (seconds micros : Int) : Except ErrKind (Int × Int) :=
  if ¬ (Gen.minSeconds ≤ seconds ∧ seconds ≤ Gen.maxSeconds) then .error .valueError
  else if ¬ (Gen.minMicroseconds ≤ micros ∧ micros ≤ Gen.maxMicroseconds) then .error .valueError
  else .ok (seconds, micros)

/-- strip trailing `'0'` bytes (`str.rstrip("0")`) -/
def rstripZeros (bs : Bytes) : Bytes :=
  (bs.reverse.dropWhile (· = bZero)).reverse

/-- zero-padded 6-digit decimal `%06d` (for 0 ≤ n < 10^6) -/
def pad6 (n : Nat) : Bytes := List.replicate (6 - (dec n).length) bZero ++ dec n

/-- `git_objects.format_date` -/
def formatDate (seconds : Int) (micros : Nat) : Bytes :=
  if micros = 0 then decInt seconds
  else rstripZeros (decInt seconds ++ bDot :: pad6 micros)

def stripSign (bs : Bytes) : Bool × Bytes :=
  match bs with
  | b :: rest => if b = bMinus then (true, rest) else (false, b :: rest)
  | [] => (false, [])

def splitFrac (body : Bytes) : Bytes × Option Bytes :=
  match splitFirst bDot body with
  | some (i, f) => (i, some f)
  | none => (body, none)

def parseFrac (fp : Option Bytes) : Option Nat :=
  match fp with
  | none => some 0
  | some f =>
    if f.isEmpty || f.length > 6 then none
    else parseDec (f ++ List.replicate (6 - f.length) bZero)

/-- independent reader of a manifest date: `[-]digits[.digits]` → (seconds, microseconds) -/
def parseDate (bs : Bytes) : Option (Int × Nat) :=
  let sb := stripSign bs
  let pf := splitFrac sb.2
  match parseDec pf.1, parseFrac pf.2 with
  | some n, some us => some ((if sb.1 then -(n : Int) else (n : Int)), us)
  | _, _ => none

/-- `format_author_data`: `fullname[ SP date SP offset_bytes]` -/
def formatAuthor (fullname : Bytes) (date : Option (Int × Nat × Bytes)) : Bytes :=
  match date with
  | none => fullname
  | some (s, us, off) => fullname ++ bSP :: (formatDate s us ++ bSP :: off)

/-- an aware datetime as (microseconds since the epoch in UTC, whole-minute offset) -/
structure DT where
  utcMicros : Int
  offMin : Int
  deriving DecidableEq, Repr

/-- `TimestampWithTimezone.from_datetime` (seconds, microseconds, numeric offset) -/
def fromDatetime (d : DT) : Int × Int × Int := (d.utcMicros / 1000000, d.utcMicros % 1000000, d.offMin)

/-- `TimestampWithTimezone.to_datetime` (falls back to UTC for |offset| ≥ 24h) -/
def toDatetime (seconds micros offset : Int) : DT :=
  let off := if -1440 < offset ∧ offset < 1440 then offset else 0
  ⟨seconds * 1000000 + micros, off⟩

end Swh
