import SwhVerif.Base.Bytes
/-!
# Executable model of `swh.model.merkle.MerkleNode` and of the derived caches of
# `swh.model.from_disk.Directory` (properties C10, C14)

Nodes live in a heap indexed by `Nat` ids (Python object identity).  `H` is the type of hashes and
`hashFn : Data → List (EntryV H) → H` the (abstract) hash function.  Reading conventions:

* `cache = none` is the only "falsy" value of `__hash` (Python's `if not self.__hash` also treats
  `0`, `b""` … as absent; hashes are assumed never falsy).
* `parents.remove(self)` is modelled as the REPAIRED behaviour: one occurrence of exactly this
  parent id is removed (identity), not the first `==`-equal node.
* Recursion over parents (`invalidate`) and over children (`updateHash`, `collect`,
  `resetCollect`) is made total with fuel; the fuel chosen by `step` is proved sufficient on
  acyclic heaps (`Lemmas/Merkle*.lean`).
* `Name`s are single path components: non-empty, without `'/'` and NUL (`validName`); a nested
  key `a/b/c` is the list `[a, b, c]`.  Anything else is answered `Err.outOfModel`.
* `Err.outOfModel` is returned (heap unchanged) for: an empty path; an invalid name; a node that
  is both `isDir` and `isLeaf`; a nested key in `setItem` on a generic (non-`Directory`) parent (it
  would create a literal key containing `/`); `update` with repeated or invalid names (the
  argument is a `dict`; NB the implementation's `Directory.update` treats a key containing `/` as
  a nested path in its membership test but stores it literally) or putting a generic node under a
  `Directory` (accepted by the implementation, `to_model` then raises); `readEntries`/`readModel`
  on a node that is not a `Directory`.  All modelled exceptions are raised before any mutation.
* Kinds: `isDir` = `from_disk.Directory`, `isLeaf` = `MerkleLeaf`/`from_disk.Content`, neither =
  a generic `MerkleNode` subclass whose `compute_hash` hashes `data` and `[(name, child.hash)]` in
  dict order.
-/
namespace Swh.Merkle
open Swh

abbrev Id := Nat
abbrev Name := Bytes
abbrev Data := Nat

/-- One entry of `Directory.entries` / of the `model.Directory` built by `to_model`:
`name`, `type` (`isDir` ⇒ "dir" else "file"), the child's data (stands for
`child.data["perms"]`; directories have constant perms) and `target = child.hash`. -/
structure EntryV (H : Type) where
  name : Name
  isDir : Bool
  cdata : Data
  target : H
  deriving DecidableEq, Repr

/-- `directory_entry_sort_key` -/
def entKey {H} (e : EntryV H) : Bytes := if e.isDir then e.name ++ [bSlash] else e.name

/-- `sorted(entries, key=directory_entry_sort_key)` -/
def sortE {H} (es : List (EntryV H)) : List (EntryV H) := sortByKey entKey es

structure Node (H : Type) where
  data : Data := 0
  isDir : Bool := false
  isLeaf : Bool := false
  /-- the underlying `dict`: insertion ordered -/
  children : List (Name × Id) := []
  /-- `self.parents`: a Python list, with multiplicity -/
  parents : List Id := []
  /-- `self.__hash` -/
  cache : Option H := none
  collected : Bool := false
  /-- `Directory.__entries` (cached value) -/
  entriesCache : Option (List (EntryV H)) := none
  /-- `Directory.__model_object` (cached value: the entry tuple) -/
  modelCache : Option (List (EntryV H)) := none
  deriving Repr

def Node.blank {H} : Node H := {}

structure Heap (H : Type) where
  nodes : Array (Node H)
  deriving Repr

namespace Heap
variable {H : Type}

def empty : Heap H := ⟨#[]⟩
def size (h : Heap H) : Nat := h.nodes.size
/-- node `i`; ids that were never allocated read as a blank node -/
def get (h : Heap H) (i : Id) : Node H := h.nodes.getD i Node.blank
/-- in-place modification of node `i` (no-op for an unallocated id) -/
def modify (h : Heap H) (i : Id) (f : Node H → Node H) : Heap H := ⟨h.nodes.modify i f⟩
def push (h : Heap H) (nd : Node H) : Heap H := ⟨h.nodes.push nd⟩

end Heap

/-! ### Python `dict` on association lists -/

def dictGet : List (Name × Id) → Name → Option Id
  | [], _ => none
  | (k', v) :: t, k => if k' = k then some v else dictGet t k

/-- `d[k] = v`: an existing key keeps its position -/
def dictSet : List (Name × Id) → Name → Id → List (Name × Id)
  | [], k, v => [(k, v)]
  | (k', v') :: t, k, v => if k' = k then (k, v) :: t else (k', v') :: dictSet t k v

/-- `del d[k]` -/
def dictDel : List (Name × Id) → Name → List (Name × Id)
  | [], _ => []
  | (k', v') :: t, k => if k' = k then t else (k', v') :: dictDel t k

/-- `d.update(kids)` -/
def dictUpdate (l kids : List (Name × Id)) : List (Name × Id) :=
  kids.foldl (fun acc kv => dictSet acc kv.1 kv.2) l

def validName (k : Name) : Bool := !k.isEmpty && !k.contains bSlash && !k.contains bNUL

section
variable {H : Type}

/-! ### invalidate_hash -/

def Node.clearDerived (nd : Node H) : Node H := { nd with entriesCache := none, modelCache := none }
def Node.clearHash (nd : Node H) : Node H := { nd with cache := none, collected := false }

/-- `invalidate_hash` (`Directory` flavour; for the other kinds the two derived caches do not
exist — in the model they are permanently `none`, so clearing them is a no-op).

```
self.__entries = None; self.__model_object = None          # Directory only
if not self.__hash: return                                  # early exit, no propagation
self.__hash = None; self.collected = False
for parent in self.parents: parent.invalidate_hash()
```
Every call that passes the early exit clears one cached node, so `fuel ≥ number of cached nodes`
suffices; the `0` branch with a cached node is unreachable then. -/
def invalidate : Nat → Heap H → Id → Heap H
  | 0, h, n => h.modify n Node.clearDerived
  | f + 1, h, n =>
    let h1 := h.modify n Node.clearDerived
    if (h1.get n).cache.isNone then h1
    else (h1.get n).parents.foldl (fun g p => invalidate f g p) (h1.modify n Node.clearHash)

/-- `invalidate_hash()` as called by the operations -/
def invalidateTop (h : Heap H) (n : Id) : Heap H := invalidate h.size h n

/-! ### update_hash / compute_hash / entries / to_model -/

variable (hashFn : Data → List (EntryV H) → H)

/-- `[(name, type(child), child.data, child.hash) for name, child in self.items()]`, threading the
heap: `child.hash` is `update_hash()` and may fill caches. -/
def childEntries (upd : Heap H → Id → Heap H × H) :
    Heap H → List (Name × Id) → Heap H × List (EntryV H)
  | h, [] => (h, [])
  | h, (nm, c) :: t =>
    let r := upd h c
    let nd := r.1.get c
    let r2 := childEntries upd r.1 t
    (r2.1, ⟨nm, nd.isDir, nd.data, r.2⟩ :: r2.2)

/-- `Directory.to_model()`: cached; otherwise the sorted entry tuple -/
def toModel (upd : Heap H → Id → Heap H × H) (h : Heap H) (n : Id) : Heap H × List (EntryV H) :=
  match (h.get n).modelCache with
  | some m => (h, m)
  | none =>
    let r := childEntries upd h (h.get n).children
    let m := sortE r.2
    (r.1.modify n (fun x => { x with modelCache := some m }), m)

/-- `Directory.entries` -/
def entriesProp (upd : Heap H → Id → Heap H × H) (h : Heap H) (n : Id) :
    Heap H × List (EntryV H) :=
  match (h.get n).entriesCache with
  | some m => (h, m)
  | none =>
    let r := childEntries upd h (h.get n).children
    let m := sortE r.2
    (r.1.modify n (fun x => { x with entriesCache := some m }), m)

/-- `compute_hash()`: `Directory` → `self.to_model().id` (the sorted entries with their perms);
other kinds → hash of the data and of the children in dict order (leaves have no children). -/
def computeHash (upd : Heap H → Id → Heap H × H) (h : Heap H) (n : Id) : Heap H × H :=
  if (h.get n).isDir then
    let r := toModel upd h n
    (r.1, hashFn (h.get n).data r.2)
  else
    let r := childEntries upd h (h.get n).children
    (r.1, hashFn (h.get n).data r.2)

/-- `update_hash(force=…)`.
```
if self.__hash and not force: return self.__hash
if force: self.invalidate_hash()
for child in self.values(): child.update_hash(force=force)
self.__hash = self.compute_hash(); return self.__hash
```
Fuel bounds the recursion over children (out of fuel = unreachable on acyclic heaps). -/
def updateHash : Nat → Bool → Heap H → Id → Heap H × H
  | 0, _, h, n => (h, hashFn (h.get n).data [])
  | f + 1, force, h, n =>
    match (h.get n).cache, force with
    | some v, false => (h, v)
    | _, _ =>
      let h1 := if force then invalidateTop h n else h
      let h2 := (h1.get n).children.foldl (fun g kc => (updateHash f force g kc.2).1) h1
      let r := computeHash hashFn (fun g c => updateHash f false g c) h2 n
      (r.1.modify n (fun x => { x with cache := some r.2 }), r.2)

/-- fuel used by the operations: more than the height of any acyclic heap -/
def topFuel (h : Heap H) : Nat := h.size + 1

/-- the `hash` property: `update_hash()` -/
def hashProp (h : Heap H) (n : Id) : Heap H × H := updateHash hashFn (topFuel h) false h n

/-! ### structural operations (single-component names) -/

/-- `MerkleNode.__setitem__(name, c)` on node `t` -/
def baseSet (h : Heap H) (t : Id) (name : Name) (c : Id) : Heap H :=
  let h1 := invalidateTop h t
  let h2 := h1.modify t (fun x => { x with children := dictSet x.children name c })
  h2.modify c (fun x => { x with parents := x.parents ++ [t] })

/-- `MerkleNode.__delitem__(name)` on node `t`, `name` present with child `o` -/
def baseDel (h : Heap H) (t : Id) (name : Name) (o : Id) : Heap H :=
  let h1 := invalidateTop h t
  let h2 := h1.modify o (fun x => { x with parents := x.parents.erase t })
  h2.modify t (fun x => { x with children := dictDel x.children name })

/-- `if name in self: self[name].parents.remove(self)`, given the result of the lookup -/
def removeParentOpt (t : Id) (h : Heap H) : Option Id → Heap H
  | some o => h.modify o (fun x => { x with parents := x.parents.erase t })
  | none => h

/-- the loop of `MerkleNode.update`: `new_child.parents.append(self)`, then
`if name in self: self[name].parents.remove(self)` (`self[name]` is still the OLD child) -/
def updateLoop (t : Id) (old : List (Name × Id)) : Heap H → List (Name × Id) → Heap H
  | h, [] => h
  | h, (name, c) :: rest =>
    let h1 := h.modify c (fun x => { x with parents := x.parents ++ [t] })
    updateLoop t old (removeParentOpt t h1 (dictGet old name)) rest

/-- `MerkleNode.update(kids)` on node `t`, `kids` non-empty -/
def baseUpdate (h : Heap H) (t : Id) (kids : List (Name × Id)) : Heap H :=
  let h1 := invalidateTop h t
  let h2 := updateLoop t (h1.get t).children h1 kids
  h2.modify t (fun x => { x with children := dictUpdate x.children kids })

/-! ### collection -/

/-- `collect_node()`: marks the node; building `{self}` hashes it (`self.hash`) -/
def collectNode (fuel : Nat) (h : Heap H) (n : Id) : Heap H × List Id :=
  if (h.get n).collected then (h, [])
  else
    let h1 := h.modify n (fun x => { x with collected := true })
    ((updateHash hashFn fuel false h1 n).1, [n])

/-- `collect()`; returns the ids newly marked, in marking order.  (`ret.update(child.collect())`
re-hashes nodes that were hashed when they were put into the child's set: no state change.) -/
def collect : Nat → Nat → Heap H → Id → Heap H × List Id
  | 0, _, h, _ => (h, [])
  | f + 1, hf, h, n =>
    let r := collectNode hashFn hf h n
    (r.1.get n).children.foldl
      (fun acc kc => let r' := collect f hf acc.1 kc.2; (r'.1, acc.2 ++ r'.2)) r

/-- `reset_collect()` -/
def resetCollect : Nat → Heap H → Id → Heap H
  | 0, h, _ => h
  | f + 1, h, n =>
    let h1 := h.modify n (fun x => { x with collected := false })
    (h1.get n).children.foldl (fun g kc => resetCollect f g kc.2) h1

/-! ### nested path keys of `from_disk.Directory` -/

inductive Err where
  /-- `KeyError` -/
  | keyError
  /-- `ValueError` (leaf, or a value that is neither `Content` nor `Directory`) -/
  | valueError
  /-- an id that was never allocated -/
  | badId
  /-- outside the modelled fragment (see the header) -/
  | outOfModel
  deriving DecidableEq, Repr

/-- `x[k1/…/kn]` (`__getitem__`, splitting at the FIRST `/`).  `Directory` recurses, a leaf raises
`ValueError`, a generic node does a plain `dict` lookup of the whole key (no modelled key contains
a `/`, so a nested key is a `KeyError`). -/
def getItem (h : Heap H) : Id → List Name → Except Err Id
  | x, [] => .ok x
  | x, k :: rest =>
    if (h.get x).isLeaf then .error .valueError
    else if (h.get x).isDir then
      match dictGet (h.get x).children k with
      | none => .error .keyError
      | some y => if rest.isEmpty then .ok y else getItem h y rest
    else if rest.isEmpty then
      match dictGet (h.get x).children k with
      | none => .error .keyError
      | some y => .ok y
    else .error .keyError

/-- `path in x` (`__contains__`, splitting at the first `/`) -/
def containsPath (h : Heap H) : Id → List Name → Bool
  | _, [] => false
  | x, [k] => (dictGet (h.get x).children k).isSome
  | x, k :: rest =>
    if (h.get x).isDir then
      match dictGet (h.get x).children k with
      | none => false
      | some y => containsPath h y rest
    else false

/-- is `c` acceptable as a value of `Directory.__setitem__`? (`Content` or `Directory`) -/
def dirValueOk (h : Heap H) (c : Id) : Bool := (h.get c).isDir || (h.get c).isLeaf

/-! ### operations and the step function -/

inductive Op where
  | newNode (data : Data) (isDir isLeaf : Bool)
  | setItem (p : Id) (path : List Name) (c : Id)
  | delItem (p : Id) (path : List Name)
  | update (p : Id) (kids : List (Name × Id))
  | readHash (n : Id)
  | forceUpdate (n : Id)
  | readEntries (n : Id)
  | readModel (n : Id)
  | collect (n : Id)
  | resetCollect (n : Id)
  | contains (p : Id) (path : List Name)
  deriving DecidableEq, Repr

inductive Out (H : Type) where
  | unit
  | newId (n : Id)
  | hash (v : H)
  | ids (l : List Id)
  | bool (b : Bool)
  | entries (es : List (EntryV H))
  /-- the entry tuple of `to_model()` and its `.id` -/
  | model (es : List (EntryV H)) (id : H)
  | err (e : Err)
  deriving Repr

def Out.isErr : Out H → Bool
  | .err _ => true
  | _ => false

/-- `t.__setitem__(name, c)` for a single-component name -/
def setAt (h : Heap H) (t : Id) (name : Name) (c : Id) : Heap H × Out H :=
  if (h.get t).isLeaf then (h, .err .valueError)
  else if (h.get t).isDir && !dirValueOk h c then (h, .err .valueError)
  else (baseSet h t name c, .unit)

/-- `t.__delitem__(name)` for a single-component name -/
def delAt (h : Heap H) (t : Id) (name : Name) : Heap H × Out H :=
  if (h.get t).isLeaf then (h, .err .valueError)
  else match dictGet (h.get t).children name with
    | none => (h, .err .keyError)
    | some o => (baseDel h t name o, .unit)

def stepSet (h : Heap H) (p : Id) (path : List Name) (c : Id) : Heap H × Out H :=
  if !(p < h.size && c < h.size) then (h, .err .badId)
  else if path.isEmpty || !path.all validName then (h, .err .outOfModel)
  else if (h.get p).isLeaf then (h, .err .valueError)
  else if (h.get p).isDir then
    if !dirValueOk h c then (h, .err .valueError)
    else match getItem h p path.dropLast with
      | .error e => (h, .err e)
      | .ok t => setAt h t (path.getLastD []) c
  else if path.length = 1 then setAt h p (path.getLastD []) c
  else (h, .err .outOfModel)

def stepDel (h : Heap H) (p : Id) (path : List Name) : Heap H × Out H :=
  if !(p < h.size) then (h, .err .badId)
  else if path.isEmpty || !path.all validName then (h, .err .outOfModel)
  else if (h.get p).isLeaf then (h, .err .valueError)
  else if (h.get p).isDir then
    match getItem h p path.dropLast with
    | .error e => (h, .err e)
    | .ok t => delAt h t (path.getLastD [])
  else if path.length = 1 then delAt h p (path.getLastD [])
  else (h, .err .keyError)

def stepUpdate (h : Heap H) (p : Id) (kids : List (Name × Id)) : Heap H × Out H :=
  if !(p < h.size && kids.all (fun kc => kc.2 < h.size)) then (h, .err .badId)
  else if (h.get p).isLeaf then (h, .err .valueError)
  else if kids.isEmpty then (h, .unit)
  else if !(kids.all (fun kc => validName kc.1) && decide (kids.map (·.1)).Nodup) then
    (h, .err .outOfModel)
  else if (h.get p).isDir && !kids.all (fun kc => dirValueOk h kc.2) then (h, .err .outOfModel)
  else (baseUpdate h p kids, .unit)

def step (h : Heap H) : Op → Heap H × Out H
  | .newNode data isDir isLeaf =>
    if isDir && isLeaf then (h, .err .outOfModel)
    else (h.push { data := data, isDir := isDir, isLeaf := isLeaf }, .newId h.size)
  | .setItem p path c => stepSet h p path c
  | .delItem p path => stepDel h p path
  | .update p kids => stepUpdate h p kids
  | .readHash n =>
    if n < h.size then let r := hashProp hashFn h n; (r.1, .hash r.2) else (h, .err .badId)
  | .forceUpdate n =>
    if n < h.size then let r := updateHash hashFn (topFuel h) true h n; (r.1, .hash r.2)
    else (h, .err .badId)
  | .readEntries n =>
    if !(n < h.size) then (h, .err .badId)
    else if !(h.get n).isDir then (h, .err .outOfModel)
    else let r := entriesProp (hashProp hashFn) h n; (r.1, .entries r.2)
  | .readModel n =>
    if !(n < h.size) then (h, .err .badId)
    else if !(h.get n).isDir then (h, .err .outOfModel)
    else
      let r := toModel (hashProp hashFn) h n
      (r.1, .model r.2 (hashFn (h.get n).data r.2))
  | .collect n =>
    if n < h.size then let r := collect hashFn (topFuel h) (topFuel h) h n; (r.1, .ids r.2)
    else (h, .err .badId)
  | .resetCollect n =>
    if n < h.size then (resetCollect (topFuel h) h n, .unit) else (h, .err .badId)
  | .contains p path =>
    if !(p < h.size) then (h, .err .badId)
    else if path.isEmpty || !path.all validName then (h, .err .outOfModel)
    else (h, .bool (containsPath h p path))

/-- the heap after each operation together with the operation and its output -/
def trace : Heap H → List Op → List (Op × Out H × Heap H)
  | _, [] => []
  | h, op :: ops => let r := step hashFn h op; (op, r.2, r.1) :: trace r.1 ops

def run (h : Heap H) (ops : List Op) : Heap H × List (Out H) :=
  ops.foldl (fun acc op => let r := step hashFn acc.1 op; (r.1, acc.2 ++ [r.2])) (h, [])

end

/-! ### the injective instantiation used by the driver -/

/-- hashes as terms: a hash *is* the description of the structure it was computed from
(per child: name, kind, child data, child hash) -/
inductive HTerm where
  | node (data : Data) (kids : List (Name × Bool × Data × HTerm))

/-- `q` maps the data of a node to what its hash retains of it (the identity for an injective
hash; the driver uses a `q` that forgets the permission part of a `Content`'s data, as `sha1_git`
does) -/
def HTerm.hashFnQ (q : Data → Data) (d : Data) (es : List (EntryV HTerm)) : HTerm :=
  HTerm.node (q d) (es.map (fun e => (e.name, e.isDir, e.cdata, e.target)))

def HTerm.hashFn : Data → List (EntryV HTerm) → HTerm := HTerm.hashFnQ id

end Swh.Merkle
