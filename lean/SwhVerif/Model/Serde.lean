import SwhVerif.Base.Bytes
import SwhVerif.Base.Err
import SwhVerif.Gen.Tables
import SwhVerif.Model.Time
import SwhVerif.Model.Swhid
/-!
  Executable model of the dictionary serialisation (`to_dict` / `from_dict`) of the 18 model
  classes of `swh/model/model.py` (C12).

  * A Python value that can occur in a dictionary form is a `Val`.  There is no constructor for
    model objects, enums or SWHIDs: "the dictionary form is plain" holds by typing.
  * A Python `str` is the list of its code points (`PStr`), lone surrogates included.
  * One structure per class, the fields carry the attrs names.  The types of the fields are the
    ones the validators leave possible (so the type validators are modelled by the decoders
    `Val → field type`).
  * `fromDict…` follow the code: which keys are popped / defaulted / passed on as `**d`
    (`kwargs` : unknown or non-string key ⇒ `TypeError`), nested objects decoded only when
    truthy, converters, validators in field order, `__attrs_post_init__`.
  * Exceptions are `ErrKind`s: `KeyError`/`AttributeError` ↦ `.other`, `TypeError` ↦ `.typeError`,
    `ValueError` and its subclasses (`AttributeTypeError`, `TimestampOverflowException`,
    `UnicodeEncodeError`) ↦ `.valueError`, `AssertionError` ↦ `.assertion`,
    `swh.model.exceptions.ValidationError` ↦ `.validation`.
  * Two behaviours are those of the REPAIRED library, not of the code as first shipped:
    `ExtID.from_dict` passes the `id` key on (`id=d.get("id") or b""`; it used to drop it), and
    the legacy branch of `RawExtrinsicMetadata.from_dict` works on a copy (it used to pop `type`
    from, and rewrite `target` in, the caller's dictionary; no difference for a function on values).
  * The intrinsic identifiers are data: an explicit non-empty `id` is kept, an empty one is
    computed by an uninterpreted function of the record (`IdFns`).

  Shapes that the typed records cannot hold are rejected with `.other` and listed here
  (Python accepts them): a `bool` where the isinstance-based validator wants an `int`
  (`OriginVisit.visit`, `OriginVisitStatus.visit`, `ExtID.extid_version`); a `str`/`bytes` given to
  the `int()` converter of `DirectoryEntry.perms`; a non-bytes `raw_manifest` (no validator);
  a non-None `get_data` (no validator; not a plain value); `Content.ctime` given as a string
  (parsed by `dateutil`).
-/
namespace Swh.Serde
open Swh

/-- a Python `str`: its code points -/
abbrev PStr := List Nat

inductive Val
  | none | bool (b : Bool) | int (i : Int) | str (s : List Nat)
  | bytes (b : Bytes) | dt (utcMicros : Int) (offMin : Int)
  | list (l : List Val)
  | dict (kv : List (Val × Val))
  deriving Repr, Inhabited

abbrev KV := List (Val × Val)

-- `k!"name"` : the code points of a literal, as an explicit list (kernel- and simp-friendly)
open Lean in
macro:max "k!" s:str : term => do
  let cs : Array (TSyntax `term) :=
    (s.getString.toList.map
      (fun c => (Syntax.mkNumLit (toString c.toNat) : TSyntax `term))).toArray
  `(([$cs,*] : List Nat))

def ofString (s : String) : PStr := s.toList.map Char.toNat

/-! ### Python-level helpers -/

/-- `bool(v)` -/
def truthy : Val → Bool
  | .none => false
  | .bool b => b
  | .int i => i != 0
  | .str s => !s.isEmpty
  | .bytes b => !b.isEmpty
  | .dt _ _ => true
  | .list l => !l.isEmpty
  | .dict kv => !kv.isEmpty

/-- `v is None` -/
def isNoneVal : Val → Bool
  | .none => true
  | _ => false

/-- `None`, or a truthy value: what `if d.get(k): d[k] = C.from_dict(d[k])` leaves well-typed
    for an `Optional[C]` validator (a falsy non-None value is left as it is and rejected) -/
def noneOrTruthy (v : Val) : Bool := isNoneVal v || truthy v

/-- `iter(v)` : what a `for` loop / `tuple(v)` / unpacking sees (`none` : not iterable) -/
def iterVals : Val → Option (List Val)
  | .list l => some l
  | .dict kv => some (kv.map Prod.fst)
  | .bytes b => some (b.map (fun x => Val.int x.toNat))
  | .str s => some (s.map (fun c => Val.str [c]))
  | _ => none

/-- `d.get(k)` for a string key -/
def lookup (k : PStr) : KV → Option Val
  | [] => none
  | (.str s, v) :: rest => if s = k then some v else lookup k rest
  | _ :: rest => lookup k rest

/-- the dictionary without the key `k` (`d.pop(k)` on a copy, `del d[k]`) -/
def erase (k : PStr) : KV → KV
  | [] => []
  | (.str s, v) :: rest => if s = k then erase k rest else (.str s, v) :: erase k rest
  | p :: rest => p :: erase k rest

/-- `d[k] = v` -/
def setKey (k : PStr) (v : Val) (kv : KV) : KV :=
  if (lookup k kv).isSome then
    kv.map (fun p => match p.1 with | .str s => if s = k then (p.1, v) else p | _ => p)
  else kv ++ [(.str k, v)]

/-- a dictionary literal in which the entries whose value is `none` are left out -/
def build : List (PStr × Option Val) → KV
  | [] => []
  | (k, some v) :: r => (.str k, v) :: build r
  | (_, none) :: r => build r

def guardE (c : Bool) (e : ErrKind) : Except ErrKind Unit := if c then .ok () else .error e

/-- the argument must be a dictionary; `e` is what the first operation of the code raises on
    something else (`.copy()`/`.get` : `AttributeError`, `**d`/`d[k]`/`in` : `TypeError`) -/
def asDict (e : ErrKind) : Val → Except ErrKind KV
  | .dict kv => .ok kv
  | _ => .error e

/-- `cls(**d)` : every key is a string and names a constructor argument, else `TypeError` -/
def strKeyIn (allowed : List PStr) (p : Val × Val) : Bool :=
  match p.1 with | .str s => allowed.contains s | _ => false

def kwargs (allowed : List PStr) (kv : KV) : Except ErrKind Unit :=
  guardE (kv.all (strKeyIn allowed)) .typeError

def ofOpt (e : ErrKind) : Option Val → Except ErrKind Val
  | some v => .ok v
  | none => .error e

/-- a constructor argument without default: `TypeError` when missing -/
def arg (kv : KV) (k : PStr) : Except ErrKind Val := ofOpt .typeError (lookup k kv)

/-- `d[k]` / `d.pop(k)` : `KeyError` when missing -/
def item (kv : KV) (k : PStr) : Except ErrKind Val := ofOpt .other (lookup k kv)

/-- `d.get(k, dflt)` / a constructor argument with a default -/
def argD (kv : KV) (k : PStr) (dflt : Val) : Val := (lookup k kv).getD dflt

def mapE {α β} (f : α → Except ErrKind β) : List α → Except ErrKind (List β)
  | [] => .ok []
  | a :: as =>
    match f a with
    | .error e => .error e
    | .ok b => match mapE f as with
      | .error e => .error e
      | .ok bs => .ok (b :: bs)

/-! ### field decoders (= the optimised type validators) and encoders -/

def decBytes : Val → Except ErrKind Bytes
  | .bytes b => .ok b | _ => .error .valueError
def decOptBytes : Val → Except ErrKind (Option Bytes)
  | .none => .ok none | .bytes b => .ok (some b) | _ => .error .valueError
def decStr : Val → Except ErrKind PStr
  | .str s => .ok s | _ => .error .valueError
def decOptStr : Val → Except ErrKind (Option PStr)
  | .none => .ok none | .str s => .ok (some s) | _ => .error .valueError
def decBool : Val → Except ErrKind Bool
  | .bool b => .ok b | _ => .error .valueError
/-- `value.__class__ is not int` -/
def decIntStrict : Val → Except ErrKind Int
  | .int i => .ok i | _ => .error .valueError
/-- `isinstance(value, int)` : a `bool` passes in Python and stays a `bool`; outside the records -/
def decInt : Val → Except ErrKind Int
  | .int i => .ok i | .bool _ => .error .other | _ => .error .valueError
/-- `None`, or `value.__class__ is int` -/
def decOptIntStrict : Val → Except ErrKind (Option Int)
  | .none => .ok none | .int i => .ok (some i) | _ => .error .valueError
def decOptInt : Val → Except ErrKind (Option Int)
  | .none => .ok none | .int i => .ok (some i) | .bool _ => .error .other | _ => .error .valueError
/-- an aware `datetime` (class check, then `tzinfo is not None` : every `Val.dt` is aware) -/
def decDt : Val → Except ErrKind DT
  | .dt u o => .ok ⟨u, o⟩ | _ => .error .valueError
def decOptDt : Val → Except ErrKind (Option DT)
  | .none => .ok none | .dt u o => .ok (some ⟨u, o⟩) | _ => .error .valueError
/-- `raw_manifest` has no validator; only `None`/`bytes` fit the record -/
def decRawManifest : Val → Except ErrKind (Option Bytes)
  | .none => .ok none | .bytes b => .ok (some b) | _ => .error .other

def encOptBytes : Option Bytes → Val | none => .none | some b => .bytes b
def encOptStr : Option PStr → Val | none => .none | some s => .str s
def encOptInt : Option Int → Val | none => .none | some i => .int i
def encDt (d : DT) : Val := .dt d.utcMicros d.offMin
def encOptDt : Option DT → Val | none => .none | some d => encDt d

/-- free-form `metadata` : `freeze_optional_dict`, then `Optional[ImmutableDict[str, object]]` -/
abbrev Meta := List (PStr × Val)

def metaEntry (p : Val × Val) : Except ErrKind (PStr × Val) :=
  match p.1 with
  | .str s => .ok (s, p.2)
  | _ => .error .valueError

def decMeta : Val → Except ErrKind (Option Meta)
  | .none => .ok none
  | .dict kv => (mapE metaEntry kv).map some
  | _ => .error .valueError

def encMeta (m : Meta) : Val := .dict (m.map (fun p => (Val.str p.1, p.2)))
def encOptMeta : Option Meta → Val | none => .none | some m => encMeta m

def mlookup (k : PStr) : Meta → Option Val
  | [] => none
  | (s, v) :: rest => if s = k then some v else mlookup k rest

/-- enum converter `E(value)` : `ValueError` unless the value is one of the enum's strings -/
def decEnum (table : List PStr) : Val → Except ErrKind PStr
  | .str s => if table.contains s then .ok s else .error .valueError
  | _ => .error .valueError

/-- `attr.validators.in_(options)` on a `str` field -/
def decIn (table : List PStr) : Val → Except ErrKind PStr := decEnum table

/-! ### enum / option tables -/

def snapshotTargetTypes : List PStr := Gen.snapshotTargetTypes.map ofString
def releaseTargetTypes : List PStr := Gen.targetTypeToGit.map (fun p => ofString p.1)
def dirEntryTypes : List PStr := Gen.dirEntryTypes.map ofString
/-- `RevisionType` values (not in the regenerated tables) -/
def revisionTypes : List PStr := [k!"git", k!"tar", k!"dsc", k!"svn", k!"hg", k!"cvs", k!"bzr"]
/-- `MetadataAuthorityType` values (not in the regenerated tables) -/
def authorityTypes : List PStr := [k!"deposit_client", k!"forge", k!"registry"]
def visitStatuses : List PStr :=
  [k!"created", k!"ongoing", k!"full", k!"partial", k!"not_found", k!"failed"]
def contentStatuses : List PStr := [k!"visible", k!"hidden"]
def skippedStatuses : List PStr := [k!"absent"]

/-! ### SWHID-valued fields -/

def strToChars : PStr → Option Str
  | [] => some []
  | n :: ns =>
    if n.isValidChar then (strToChars ns).map (fun cs => Char.ofNat n :: cs) else none

def charsToStr (s : Str) : PStr := s.map Char.toNat

/-- `CoreSWHID.from_string` / `ExtendedSWHID.from_string` on a dictionary value.
    A non-`str` makes `re.fullmatch` raise `TypeError`; a string with a lone surrogate cannot
    match the pattern of an unqualified SWHID. -/
def decSwhid (tags : List Str) : Val → Except ErrKind BaseSwhid
  | .str s =>
    match strToChars s with
    | some cs => baseFromString tags cs
    | none => .error .validation
  | _ => .error .typeError

def swhidText (b : BaseSwhid) : PStr := charsToStr (printBase b)
def encSwhid (b : BaseSwhid) : Val := .str (swhidText b)
def encOptSwhid : Option BaseSwhid → Val | none => .none | some b => encSwhid b

/-! ### the 18 classes -/

structure Person where
  fullname : Bytes
  name : Option Bytes
  email : Option Bytes
  deriving Repr, DecidableEq

structure Timestamp where
  seconds : Int
  microseconds : Int
  deriving Repr, DecidableEq

structure TimestampWithTimezone where
  timestamp : Timestamp
  offset_bytes : Bytes
  deriving Repr, DecidableEq

structure Origin where
  url : PStr
  id : Bytes
  deriving Repr, DecidableEq

structure OriginVisit where
  origin : PStr
  date : DT
  type : PStr
  visit : Option Int
  deriving Repr, DecidableEq

structure OriginVisitStatus where
  origin : PStr
  visit : Int
  date : DT
  status : PStr
  snapshot : Option Bytes
  type : Option PStr
  metadata : Option Meta
  deriving Repr

structure SnapshotBranch where
  target : Bytes
  /-- the `SnapshotTargetType` value -/
  target_type : PStr
  deriving Repr, DecidableEq

structure Snapshot where
  branches : List (Bytes × Option SnapshotBranch)
  id : Bytes
  deriving Repr, DecidableEq

structure Release where
  name : Bytes
  message : Option Bytes
  target : Option Bytes
  /-- the `ReleaseTargetType` value -/
  target_type : PStr
  synthetic : Bool
  author : Option Person
  date : Option TimestampWithTimezone
  metadata : Option Meta
  id : Bytes
  raw_manifest : Option Bytes
  deriving Repr

structure Revision where
  message : Option Bytes
  author : Option Person
  committer : Option Person
  date : Option TimestampWithTimezone
  committer_date : Option TimestampWithTimezone
  /-- the `RevisionType` value -/
  type : PStr
  directory : Bytes
  synthetic : Bool
  metadata : Option Meta
  parents : List Bytes
  id : Bytes
  extra_headers : List (Bytes × Bytes)
  raw_manifest : Option Bytes
  deriving Repr

structure DirectoryEntry where
  name : Bytes
  type : PStr
  target : Bytes
  perms : Int
  deriving Repr, DecidableEq

structure Directory where
  entries : List DirectoryEntry
  id : Bytes
  raw_manifest : Option Bytes
  deriving Repr, DecidableEq

structure Content where
  sha1 : Bytes
  sha1_git : Bytes
  sha256 : Bytes
  blake2s256 : Bytes
  length : Int
  status : PStr
  data : Option Bytes
  /-- a callable is represented by the bytes it returns; never produced by `fromDict` -/
  get_data : Option Bytes
  ctime : Option DT
  deriving Repr, DecidableEq

structure SkippedContent where
  sha1 : Option Bytes
  sha1_git : Option Bytes
  sha256 : Option Bytes
  blake2s256 : Option Bytes
  /-- `Optional[int]` by annotation, but `check_length` rejects `None` -/
  length : Int
  status : PStr
  /-- `Optional[str]` by annotation, but `check_reason` rejects `None` -/
  reason : PStr
  origin : Option PStr
  ctime : Option DT
  deriving Repr, DecidableEq

structure MetadataAuthority where
  /-- the `MetadataAuthorityType` value -/
  type : PStr
  url : PStr
  metadata : Option Meta
  deriving Repr

structure MetadataFetcher where
  name : PStr
  version : PStr
  metadata : Option Meta
  deriving Repr

structure RawExtrinsicMetadata where
  target : BaseSwhid
  discovery_date : DT
  authority : MetadataAuthority
  fetcher : MetadataFetcher
  format : PStr
  metadata : Bytes
  origin : Option PStr
  visit : Option Int
  snapshot : Option BaseSwhid
  release : Option BaseSwhid
  revision : Option BaseSwhid
  path : Option Bytes
  directory : Option BaseSwhid
  id : Bytes
  deriving Repr

structure ExtID where
  extid_type : PStr
  extid : Bytes
  target : BaseSwhid
  extid_version : Int
  payload_type : Option PStr
  payload : Option Bytes
  id : Bytes
  deriving Repr, DecidableEq

/-- `compute_hash` of the hashable classes, uninterpreted.  Each function receives the record as
    it is when `__attrs_post_init__` runs (empty `id`; for revisions: before the extra headers
    are moved out of the metadata). `origin` is `sha1(url.encode())`. -/
structure IdFns where
  origin : PStr → Bytes
  snapshot : Snapshot → Bytes
  release : Release → Bytes
  revision : Revision → Bytes
  directory : Directory → Bytes
  rawExtrinsicMetadata : RawExtrinsicMetadata → Bytes
  extID : ExtID → Bytes

/-! ### Person -/

def toDictPerson (o : Person) : Val :=
  .dict (build [(k!"fullname", some (.bytes o.fullname)),
                (k!"name", some (encOptBytes o.name)),
                (k!"email", some (encOptBytes o.email))])

/-- the operand of `parts.append` / `b"".join` : `None` or bytes, else `TypeError` at the join -/
def decJoinPart : Val → Except ErrKind (Option Bytes)
  | .none => .ok none | .bytes b => .ok (some b) | _ => .error .typeError

/-- the fullname built by `Person.from_dict` when the key is missing -/
def joinFullname (name email : Option Bytes) : Bytes :=
  joinWith [bSP]
    ((match name with | some n => [n] | none => []) ++
     (match email with | some e => [(0x3c : UInt8) :: (e ++ [0x3e])] | none => []))

def fromDictPerson (d : Val) : Except ErrKind Person := do
  let kv ← asDict .typeError d
  let kv' ← (match lookup k!"fullname" kv with
    | some _ => .ok kv
    | none => do
      let n ← item kv k!"name"
      let n' ← decJoinPart n
      let e ← item kv k!"email"
      let e' ← decJoinPart e
      .ok (kv ++ [(Val.str k!"fullname", Val.bytes (joinFullname n' e'))]))
  kwargs [k!"fullname", k!"name", k!"email"] kv'
  let fullname ← arg kv' k!"fullname"
  let fullname ← decBytes fullname
  let name ← decOptBytes (argD kv' k!"name" .none)
  let email ← decOptBytes (argD kv' k!"email" .none)
  .ok { fullname, name, email }

/-! ### Timestamp -/

def toDictTimestamp (o : Timestamp) : Val :=
  .dict (build [(k!"seconds", some (.int o.seconds)), (k!"microseconds", some (.int o.microseconds))])

/-- `Timestamp(seconds=…, microseconds=…)` -/
def mkTs (seconds micros : Val) : Except ErrKind Timestamp := do
  let s ← decIntStrict seconds
  guardE (decide (Gen.minSeconds ≤ s ∧ s ≤ Gen.maxSeconds)) .valueError
  let us ← decIntStrict micros
  guardE (decide (Gen.minMicroseconds ≤ us ∧ us ≤ Gen.maxMicroseconds)) .valueError
  .ok { seconds := s, microseconds := us }

def fromDictTimestamp (d : Val) : Except ErrKind Timestamp := do
  let kv ← asDict .typeError d
  kwargs [k!"seconds", k!"microseconds"] kv
  let s ← arg kv k!"seconds"
  let us ← arg kv k!"microseconds"
  mkTs s us

/-! ### TimestampWithTimezone -/

def toDictTimestampWithTimezone (o : TimestampWithTimezone) : Val :=
  .dict (build [(k!"timestamp", some (toDictTimestamp o.timestamp)),
                (k!"offset_bytes", some (.bytes o.offset_bytes))])

/-- the `offset` operand of `from_numeric_offset` (`offset < 0`, `abs`, `divmod`) -/
def decOffset : Val → Except ErrKind Int
  | .int i => .ok i
  | .bool b => .ok (if b then 1 else 0)
  | _ => .error .typeError

def plusZero : Bytes := [0x2b, 0x30, 0x30, 0x30, 0x30]

def fromDictTimestampWithTimezone (v : Val) : Except ErrKind TimestampWithTimezone :=
  match v with
  | .dict kv => do
    let ts ← item kv k!"timestamp"
    let timestamp ← (match ts with
      | .dict t => mkTs (argD t k!"seconds" (.int 0)) (argD t k!"microseconds" (.int 0))
      | .int i => mkTs (.int i) (.int 0)
      | .bool b => mkTs (.bool b) (.int 0)
      | _ => .error .valueError)
    match lookup k!"offset_bytes" kv with
    | some ob => do
      let ob ← decBytes ob
      .ok { timestamp, offset_bytes := ob }
    | none => do
      -- old format
      let off ← item kv k!"offset"
      let negativeUtc := truthy (argD kv k!"negative_utc" .none)
      let off ← decOffset off
      let ob ← fromNumericOffset off negativeUtc
      .ok { timestamp, offset_bytes := ob }
  | .dt u o => do
    let r := fromDatetime ⟨u, o⟩
    let timestamp ← mkTs (.int r.1) (.int r.2.1)
    let ob ← fromNumericOffset r.2.2 false
    .ok { timestamp, offset_bytes := ob }
  | .int i => do
    let timestamp ← mkTs (.int i) (.int 0)
    .ok { timestamp, offset_bytes := plusZero }
  | .bool b => do
    -- `isinstance(True, int)`
    let timestamp ← mkTs (.bool b) (.int 0)
    .ok { timestamp, offset_bytes := plusZero }
  | _ => .error .valueError

/-! ### Origin -/

def isSurrogate (c : Nat) : Bool := 0xD800 ≤ c && c ≤ 0xDFFF
def utf8Len1 (c : Nat) : Nat :=
  if c < 0x80 then 1 else if c < 0x800 then 2 else if c < 0x10000 then 3 else 4
/-- `len(url.encode())` -/
def utf8Len : PStr → Nat
  | [] => 0
  | c :: cs => utf8Len1 c + utf8Len cs

/-- `check_url` (`UnicodeEncodeError` is a `ValueError`) -/
def urlOk (url : PStr) : Bool := !url.any isSurrogate && utf8Len url < 2048

def toDictOrigin (o : Origin) : Val :=
  .dict (build [(k!"url", some (.str o.url)), (k!"id", some (.bytes o.id))])

/-- `Origin(url=…, id=…)` -/
def mkOrigin (ids : IdFns) (url id : Val) : Except ErrKind Origin := do
  let url ← decStr url
  guardE (urlOk url) .valueError
  let id ← decBytes id
  .ok { url, id := if id.isEmpty then ids.origin url else id }

def fromDictOrigin (ids : IdFns) (d : Val) : Except ErrKind Origin := do
  let kv ← asDict .typeError d
  kwargs [k!"url", k!"id"] kv
  let url ← arg kv k!"url"
  mkOrigin ids url (argD kv k!"id" (.bytes []))

/-! ### OriginVisit -/

def toDictOriginVisit (o : OriginVisit) : Val :=
  .dict (build [(k!"origin", some (.str o.origin)), (k!"date", some (encDt o.date)),
                (k!"type", some (.str o.type)), (k!"visit", o.visit.map Val.int)])

def fromDictOriginVisit (d : Val) : Except ErrKind OriginVisit := do
  let kv ← asDict .typeError d
  kwargs [k!"origin", k!"date", k!"type", k!"visit"] kv
  let origin ← arg kv k!"origin"
  let date ← arg kv k!"date"
  let type ← arg kv k!"type"
  let origin ← decStr origin
  let date ← decDt date
  let type ← decStr type
  let visit ← decOptInt (argD kv k!"visit" .none)
  .ok { origin, date, type, visit }

/-! ### OriginVisitStatus -/

def toDictOriginVisitStatus (o : OriginVisitStatus) : Val :=
  .dict (build [(k!"origin", some (.str o.origin)), (k!"visit", some (.int o.visit)),
                (k!"date", some (encDt o.date)), (k!"status", some (.str o.status)),
                (k!"snapshot", some (encOptBytes o.snapshot)), (k!"type", some (encOptStr o.type)),
                (k!"metadata", some (encOptMeta o.metadata))])

def fromDictOriginVisitStatus (d : Val) : Except ErrKind OriginVisitStatus := do
  let kv ← asDict .typeError d
  kwargs [k!"origin", k!"visit", k!"date", k!"status", k!"snapshot", k!"type", k!"metadata"] kv
  let origin ← arg kv k!"origin"
  let visit ← arg kv k!"visit"
  let date ← arg kv k!"date"
  let status ← arg kv k!"status"
  let snapshot ← arg kv k!"snapshot"
  let origin ← decStr origin
  let visit ← decInt visit
  let date ← decDt date
  let status ← decIn visitStatuses status
  let snapshot ← decOptBytes snapshot
  let type ← decOptStr (argD kv k!"type" .none)
  let metadata ← decMeta (argD kv k!"metadata" .none)
  .ok { origin, visit, date, status, snapshot, type, metadata }

/-! ### SnapshotBranch -/

def kAlias : PStr := k!"alias"

def toDictSnapshotBranch (o : SnapshotBranch) : Val :=
  .dict (build [(k!"target", some (.bytes o.target)), (k!"target_type", some (.str o.target_type))])

def fromDictSnapshotBranch (d : Val) : Except ErrKind SnapshotBranch := do
  let kv ← asDict .typeError d
  let target ← item kv k!"target"
  let tt ← item kv k!"target_type"
  let target_type ← decEnum snapshotTargetTypes tt
  -- check_target
  let target ← decBytes target
  guardE (target_type == kAlias || target.length == 20) .valueError
  .ok { target, target_type }

/-! ### Snapshot -/

def encBranch : Option SnapshotBranch → Val
  | none => .none
  | some b => toDictSnapshotBranch b

def toDictSnapshot (o : Snapshot) : Val :=
  .dict (build [(k!"branches", some (.dict (o.branches.map (fun p => (Val.bytes p.1, encBranch p.2))))),
                (k!"id", some (.bytes o.id))])

/-- `SnapshotBranch.from_dict(branch) if branch else None` -/
def decBranch (v : Val) : Except ErrKind (Option SnapshotBranch) :=
  if truthy v then (fromDictSnapshotBranch v).map some else .ok none

def fromDictSnapshot (ids : IdFns) (d : Val) : Except ErrKind Snapshot := do
  let kv ← asDict .other d
  let br ← item kv k!"branches"
  let items ← asDict .other br            -- `.items()`
  let decoded ← mapE (fun p => (decBranch p.2).map (fun b => (p.1, b))) items
  kwargs [k!"id"] (erase k!"branches" kv)
  let branches ← mapE (fun p => (decBytes p.1).map (fun n => (n, p.2))) decoded
  let id ← decBytes (argD kv k!"id" (.bytes []))
  let o : Snapshot := { branches, id }
  .ok (if id.isEmpty then { o with id := ids.snapshot o } else o)

/-! ### Release -/

def encOptPerson : Option Person → Val | none => .none | some p => toDictPerson p
def encOptTstz : Option TimestampWithTimezone → Val
  | none => .none | some t => toDictTimestampWithTimezone t

def toDictRelease (o : Release) : Val :=
  .dict (build [(k!"name", some (.bytes o.name)), (k!"message", some (encOptBytes o.message)),
                (k!"target", some (encOptBytes o.target)),
                (k!"target_type", some (.str o.target_type)),
                (k!"synthetic", some (.bool o.synthetic)),
                (k!"author", some (encOptPerson o.author)),
                (k!"date", some (encOptTstz o.date)),
                (k!"metadata", o.metadata.map encMeta),
                (k!"id", some (.bytes o.id)),
                (k!"raw_manifest", o.raw_manifest.map Val.bytes)])

/-- `if d.get(k): d[k] = C.from_dict(d[k])` followed by the `Optional[C]` validator -/
def decOptObj {α} (f : Val → Except ErrKind α) (v : Val) : Except ErrKind (Option α) :=
  match v with
  | .none => .ok none
  | _ => if truthy v then (f v).map some else .error .valueError

/-- `X.from_dict(v) if v else v` -/
def decIfTruthy {α} (f : Val → Except ErrKind α) (v : Val) : Except ErrKind (Option α) :=
  if truthy v then (f v).map some else .ok none

def releaseFields : List PStr :=
  [k!"name", k!"message", k!"target", k!"target_type", k!"synthetic", k!"author", k!"date",
   k!"metadata", k!"id", k!"raw_manifest"]

def fromDictRelease (ids : IdFns) (d : Val) : Except ErrKind Release := do
  let kv ← asDict .other d
  let authorV := argD kv k!"author" .none
  let author ← decIfTruthy fromDictPerson authorV
  let dateV := argD kv k!"date" .none
  let date ← decIfTruthy fromDictTimestampWithTimezone dateV
  let tt ← item kv k!"target_type"
  let target_type ← decEnum releaseTargetTypes tt
  kwargs releaseFields kv
  let name ← arg kv k!"name"
  let message ← arg kv k!"message"
  let target ← arg kv k!"target"
  let synthetic ← arg kv k!"synthetic"
  -- validators, in field order
  let name ← decBytes name
  let message ← decOptBytes message
  let target ← decOptBytes target
  let synthetic ← decBool synthetic
  guardE (noneOrTruthy authorV) .valueError                        -- a falsy non-None author
  guardE (!(author.isNone && !isNoneVal dateV)) .valueError         -- check_author
  guardE (noneOrTruthy dateV) .valueError                          -- a falsy non-None date
  let metadata ← decMeta (argD kv k!"metadata" .none)
  let id ← decBytes (argD kv k!"id" (.bytes []))
  let raw_manifest ← decRawManifest (argD kv k!"raw_manifest" .none)
  let o : Release :=
    { name, message, target, target_type, synthetic, author, date, metadata, id, raw_manifest }
  .ok (if id.isEmpty then { o with id := ids.release o } else o)

/-! ### Revision -/

def encHeaders (hs : List (Bytes × Bytes)) : Val :=
  .list (hs.map (fun p => Val.list [.bytes p.1, .bytes p.2]))

def toDictRevision (o : Revision) : Val :=
  .dict (build [(k!"message", some (encOptBytes o.message)),
                (k!"author", some (encOptPerson o.author)),
                (k!"committer", some (encOptPerson o.committer)),
                (k!"date", some (encOptTstz o.date)),
                (k!"committer_date", some (encOptTstz o.committer_date)),
                (k!"type", some (.str o.type)),
                (k!"directory", some (.bytes o.directory)),
                (k!"synthetic", some (.bool o.synthetic)),
                (k!"metadata", some (encOptMeta o.metadata)),
                (k!"parents", some (.list (o.parents.map Val.bytes))),
                (k!"id", some (.bytes o.id)),
                (k!"extra_headers", some (encHeaders o.extra_headers)),
                (k!"raw_manifest", o.raw_manifest.map Val.bytes)])

/-- `tuplify_extra_headers` : `tuple((k, v) for k, v in value)` -/
def tuplify (v : Val) : Except ErrKind (List (Val × Val)) :=
  match iterVals v with
  | none => .error .typeError
  | some items =>
    mapE (fun it => match iterVals it with
      | none => .error .typeError
      | some [a, b] => .ok (a, b)
      | some _ => .error .valueError) items

/-- the `Tuple[Tuple[bytes, bytes], ...]` validator -/
def decHeaders (l : List (Val × Val)) : Except ErrKind (List (Bytes × Bytes)) :=
  mapE (fun p => match p with
    | (.bytes a, .bytes b) => .ok (a, b)
    | _ => .error .valueError) l

def kExtraHeaders : PStr := k!"extra_headers"

/-- `Revision.__attrs_post_init__` : compute the id when empty, then move the legacy
    `metadata["extra_headers"]` to the attribute (and validate it) when the attribute is empty -/
def revisionPostInit (ids : IdFns) (o : Revision) : Except ErrKind Revision :=
  let o := if o.id.isEmpty then { o with id := ids.revision o } else o
  match o.metadata with
  | none => .ok o
  | some m =>
    if m.isEmpty then .ok o
    else if o.extra_headers.isEmpty then
      match mlookup kExtraHeaders m with
      | none => .ok o
      | some hv => do
        let pairs ← tuplify hv
        let hs ← decHeaders pairs
        .ok { o with extra_headers := hs,
                     metadata := some (m.filter (fun p => p.1 != kExtraHeaders)) }
    else .ok o

/-- `tuple(d.pop("parents"))` then the `Tuple[bytes, ...]` validator -/
def decParents (v : Val) : Except ErrKind (List Val) :=
  match iterVals v with
  | none => .error .typeError
  | some l => .ok l

def revisionFields : List PStr :=
  [k!"message", k!"author", k!"committer", k!"date", k!"committer_date", k!"type", k!"directory",
   k!"synthetic", k!"metadata", k!"parents", k!"id", k!"extra_headers", k!"raw_manifest"]

def fromDictRevision (ids : IdFns) (d : Val) : Except ErrKind Revision := do
  let kv ← asDict .other d
  let dateV ← item kv k!"date"
  let date ← decIfTruthy fromDictTimestampWithTimezone dateV
  let cdateV ← item kv k!"committer_date"
  let committer_date ← decIfTruthy fromDictTimestampWithTimezone cdateV
  let authorV ← item kv k!"author"
  let author ← decIfTruthy fromDictPerson authorV
  let committerV ← item kv k!"committer"
  let committer ← decIfTruthy fromDictPerson committerV
  let ty ← item kv k!"type"
  let type ← decEnum revisionTypes ty
  let parentsV ← item kv k!"parents"
  let parentsL ← decParents parentsV
  kwargs revisionFields kv
  let message ← arg kv k!"message"
  let directory ← arg kv k!"directory"
  let synthetic ← arg kv k!"synthetic"
  -- converters
  let pairs ← tuplify (argD kv k!"extra_headers" (.list []))
  -- validators, in field order
  let message ← decOptBytes message
  guardE (noneOrTruthy authorV) .valueError
  guardE (!(author.isNone && !isNoneVal dateV)) .valueError          -- check_author
  guardE (noneOrTruthy committerV) .valueError
  guardE (!(committer.isNone && !isNoneVal cdateV)) .valueError      -- check_committer
  guardE (noneOrTruthy dateV) .valueError
  guardE (noneOrTruthy cdateV) .valueError
  let directory ← decBytes directory
  let synthetic ← decBool synthetic
  let metadata ← decMeta (argD kv k!"metadata" .none)
  let parents ← mapE decBytes parentsL
  let id ← decBytes (argD kv k!"id" (.bytes []))
  let extra_headers ← decHeaders pairs
  let raw_manifest ← decRawManifest (argD kv k!"raw_manifest" .none)
  revisionPostInit ids
    { message, author, committer, date, committer_date, type, directory, synthetic, metadata,
      parents, id, extra_headers, raw_manifest }

/-! ### DirectoryEntry -/

def toDictDirectoryEntry (o : DirectoryEntry) : Val :=
  .dict (build [(k!"name", some (.bytes o.name)), (k!"type", some (.str o.type)),
                (k!"target", some (.bytes o.target)), (k!"perms", some (.int o.perms))])

/-- the `int` converter of `perms` -/
def convInt : Val → Except ErrKind Int
  | .int i => .ok i
  | .bool b => .ok (if b then 1 else 0)
  | .str _ => .error .other      -- `int("…")` : not modelled
  | .bytes _ => .error .other    -- `int(b"…")` : not modelled
  | _ => .error .typeError

def fromDictDirectoryEntry (d : Val) : Except ErrKind DirectoryEntry := do
  let kv ← asDict .typeError d
  kwargs [k!"name", k!"type", k!"target", k!"perms"] kv
  let name ← arg kv k!"name"
  let type ← arg kv k!"type"
  let target ← arg kv k!"target"
  let perms ← arg kv k!"perms"
  let perms ← convInt perms
  let name ← decBytes name
  guardE (!name.contains bSlash) .valueError       -- check_name
  let type ← decIn dirEntryTypes type
  let target ← decBytes target
  .ok { name, type, target, perms }

/-! ### Directory -/

def toDictDirectory (o : Directory) : Val :=
  .dict (build [(k!"entries", some (.list (o.entries.map toDictDirectoryEntry))),
                (k!"id", some (.bytes o.id)),
                (k!"raw_manifest", o.raw_manifest.map Val.bytes)])

/-- `check_entries` : no two entries with the same name -/
def namesDistinct : List Bytes → Bool
  | [] => true
  | n :: ns => !ns.contains n && namesDistinct ns

def fromDictDirectory (ids : IdFns) (d : Val) : Except ErrKind Directory := do
  let kv ← asDict .other d
  let ev ← item kv k!"entries"
  let items ← (match iterVals ev with | some l => .ok l | none => .error .typeError)
  let entries ← mapE fromDictDirectoryEntry items
  kwargs [k!"id", k!"raw_manifest"] (erase k!"entries" kv)
  guardE (namesDistinct (entries.map (·.name))) .valueError
  let id ← decBytes (argD kv k!"id" (.bytes []))
  let raw_manifest ← decRawManifest (argD kv k!"raw_manifest" .none)
  let o : Directory := { entries, id, raw_manifest }
  .ok (if id.isEmpty then { o with id := ids.directory o } else o)

/-! ### Content -/

/-- `Content.to_dict` : `with_data(raise_if_missing=False)` first loads the data from the
    callable.  (When both `data` and `get_data` are set Python leaves the callable in the
    dictionary; a callable is not a `Val`, the entry is left out here: see `ValidContent`.) -/
def toDictContent (o : Content) : Val :=
  let data := o.data.or o.get_data
  .dict (build [(k!"sha1", some (.bytes o.sha1)), (k!"sha1_git", some (.bytes o.sha1_git)),
                (k!"sha256", some (.bytes o.sha256)), (k!"blake2s256", some (.bytes o.blake2s256)),
                (k!"length", some (.int o.length)), (k!"status", some (.str o.status)),
                (k!"data", data.map Val.bytes),
                (k!"ctime", o.ctime.map encDt)])

def isStrVal : Val → Bool
  | .str _ => true
  | _ => false

def contentFields : List PStr :=
  [k!"sha1", k!"sha1_git", k!"sha256", k!"blake2s256", k!"length", k!"status", k!"data",
   k!"get_data", k!"ctime"]

/-- `get_data` has no validator; only `None` fits the record coming from a plain dictionary -/
def decGetData : Val → Except ErrKind (Option Bytes)
  | .none => .ok none | _ => .error .other

def fromDictContent (d : Val) : Except ErrKind Content := do
  let kv ← asDict .other d
  -- `isinstance(d.get("ctime"), str)` : parsed with `dateutil`, not modelled
  guardE (!isStrVal (argD kv k!"ctime" .none)) .other
  kwargs contentFields kv
  let sha1 ← arg kv k!"sha1"
  let sha1_git ← arg kv k!"sha1_git"
  let sha256 ← arg kv k!"sha256"
  let blake2s256 ← arg kv k!"blake2s256"
  let length ← arg kv k!"length"
  let sha1 ← decBytes sha1
  let sha1_git ← decBytes sha1_git
  let sha256 ← decBytes sha256
  let blake2s256 ← decBytes blake2s256
  let length ← decIntStrict length
  guardE (decide (0 ≤ length)) .valueError
  let status ← decIn contentStatuses (argD kv k!"status" (.str k!"visible"))
  let data ← decOptBytes (argD kv k!"data" .none)
  let get_data ← decGetData (argD kv k!"get_data" .none)
  let ctime ← decOptDt (argD kv k!"ctime" .none)
  .ok { sha1, sha1_git, sha256, blake2s256, length, status, data, get_data, ctime }

/-! ### SkippedContent -/

def toDictSkippedContent (o : SkippedContent) : Val :=
  .dict (build [(k!"sha1", some (encOptBytes o.sha1)), (k!"sha1_git", some (encOptBytes o.sha1_git)),
                (k!"sha256", some (encOptBytes o.sha256)),
                (k!"blake2s256", some (encOptBytes o.blake2s256)),
                (k!"length", some (.int o.length)), (k!"status", some (.str o.status)),
                (k!"reason", some (.str o.reason)),
                (k!"origin", o.origin.map Val.str),
                (k!"ctime", o.ctime.map encDt)])

def skippedFields : List PStr :=
  [k!"sha1", k!"sha1_git", k!"sha256", k!"blake2s256", k!"length", k!"status", k!"reason",
   k!"origin", k!"ctime"]

/-- `check_reason` : `None` is rejected, then the class must be `str` -/
def decReason : Val → Except ErrKind PStr
  | .str s => .ok s | _ => .error .valueError

def fromDictSkippedContent (d : Val) : Except ErrKind SkippedContent := do
  let kv ← asDict .other d
  guardE (isNoneVal (argD kv k!"data" .none)) .valueError
  let kv := erase k!"data" kv
  kwargs skippedFields kv
  let sha1 ← arg kv k!"sha1"
  let sha1_git ← arg kv k!"sha1_git"
  let sha256 ← arg kv k!"sha256"
  let blake2s256 ← arg kv k!"blake2s256"
  let length ← arg kv k!"length"
  let status ← arg kv k!"status"
  let sha1 ← decOptBytes sha1
  let sha1_git ← decOptBytes sha1_git
  let sha256 ← decOptBytes sha256
  let blake2s256 ← decOptBytes blake2s256
  let length ← decIntStrict length
  guardE (decide (-1 ≤ length)) .valueError
  let status ← decIn skippedStatuses status
  let reason ← decReason (argD kv k!"reason" .none)
  let origin ← decOptStr (argD kv k!"origin" .none)
  let ctime ← decOptDt (argD kv k!"ctime" .none)
  .ok { sha1, sha1_git, sha256, blake2s256, length, status, reason, origin, ctime }

/-- `d["status"] == "absent"` -/
def isAbsent : Val → Bool
  | .str s => s == k!"absent"
  | _ => false

/-- `BaseContent.from_dict` : dispatch on `status` -/
def fromDictBaseContent (d : Val) : Except ErrKind (Content ⊕ SkippedContent) := do
  let kv ← asDict .typeError d
  let st ← item kv k!"status"
  if isAbsent st then (fromDictSkippedContent d).map Sum.inr
  else (fromDictContent d).map Sum.inl

def toDictBaseContent : Content ⊕ SkippedContent → Val
  | .inl c => toDictContent c
  | .inr s => toDictSkippedContent s

/-! ### MetadataAuthority, MetadataFetcher -/

def toDictMetadataAuthority (o : MetadataAuthority) : Val :=
  .dict (build [(k!"type", some (.str o.type)), (k!"url", some (.str o.url)),
                (k!"metadata", o.metadata.map encMeta)])

def fromDictMetadataAuthority (d : Val) : Except ErrKind MetadataAuthority := do
  let kv ← asDict .typeError d
  let ty ← item kv k!"type"
  let type ← decEnum authorityTypes ty
  kwargs [k!"type", k!"url", k!"metadata"] kv
  let url ← arg kv k!"url"
  let url ← decStr url
  let metadata ← decMeta (argD kv k!"metadata" .none)
  .ok { type, url, metadata }

def toDictMetadataFetcher (o : MetadataFetcher) : Val :=
  .dict (build [(k!"name", some (.str o.name)), (k!"version", some (.str o.version)),
                (k!"metadata", o.metadata.map encMeta)])

def fromDictMetadataFetcher (d : Val) : Except ErrKind MetadataFetcher := do
  let kv ← asDict .typeError d
  kwargs [k!"name", k!"version", k!"metadata"] kv
  let name ← arg kv k!"name"
  let version ← arg kv k!"version"
  let name ← decStr name
  let version ← decStr version
  let metadata ← decMeta (argD kv k!"metadata" .none)
  .ok { name, version, metadata }

/-! ### RawExtrinsicMetadata -/

/-- `normalize_discovery_date` : to UTC, microseconds truncated -/
def normalizeDiscoveryDate (d : DT) : DT := ⟨d.utcMicros - d.utcMicros % 1000000, 0⟩

/-- the converter of `discovery_date` : `TypeError` unless a datetime -/
def convDiscoveryDate : Val → Except ErrKind DT
  | .dt u o => .ok (normalizeDiscoveryDate ⟨u, o⟩)
  | _ => .error .typeError

def tSnp : Str := ['s','n','p']
def tRel : Str := ['r','e','l']
def tRev : Str := ['r','e','v']
def tDir : Str := ['d','i','r']
def tCnt : Str := ['c','n','t']
def tOri : Str := ['o','r','i']

/-- `value.startswith("swh:")` -/
def startsWithSwh (s : PStr) : Bool := s.take 4 == k!"swh:"

/-- `check_origin` -/
def originCtxOk (ty : Str) : Option PStr → Bool
  | none => true
  | some v => [tSnp, tRel, tRev, tDir, tCnt].contains ty && !startsWithSwh v
/-- `check_visit` -/
def visitCtxOk (ty : Str) (origin : Option PStr) : Option Int → Bool
  | none => true
  | some v => [tSnp, tRel, tRev, tDir, tCnt].contains ty && origin.isSome && decide (0 < v)
/-- `check_snapshot` / `check_release` / `check_revision` / `check_directory` :
    target kinds for which the context key is allowed, and the kind the value must have -/
def swhidCtxOk (ty : Str) (allowed : List Str) (kind : Str) : Option BaseSwhid → Bool
  | none => true
  | some v => allowed.contains ty && v.objectType == kind
/-- target kinds for which each SWHID-valued context key is accepted -/
def snapshotCtxFor : List Str := [tRel, tRev, tDir, tCnt]
def releaseCtxFor : List Str := [tRev, tDir, tCnt]
def revisionCtxFor : List Str := [tDir, tCnt]
def directoryCtxFor : List Str := [tCnt]

/-- `check_path` -/
def pathCtxOk (ty : Str) : Option Bytes → Bool
  | none => true
  | some _ => [tDir, tCnt].contains ty

def toDictRawExtrinsicMetadata (o : RawExtrinsicMetadata) : Val :=
  .dict (build [(k!"target", some (encSwhid o.target)),
                (k!"discovery_date", some (encDt o.discovery_date)),
                (k!"authority", some (toDictMetadataAuthority o.authority)),
                (k!"fetcher", some (toDictMetadataFetcher o.fetcher)),
                (k!"format", some (.str o.format)),
                (k!"metadata", some (.bytes o.metadata)),
                (k!"origin", o.origin.map Val.str),
                (k!"visit", o.visit.map Val.int),
                (k!"snapshot", o.snapshot.map encSwhid),
                (k!"release", o.release.map encSwhid),
                (k!"revision", o.revision.map encSwhid),
                (k!"path", o.path.map Val.bytes),
                (k!"directory", o.directory.map encSwhid),
                (k!"id", some (.bytes o.id))])

def remFields : List PStr :=
  [k!"target", k!"discovery_date", k!"authority", k!"fetcher", k!"format", k!"metadata",
   k!"origin", k!"visit", k!"snapshot", k!"release", k!"revision", k!"path", k!"directory", k!"id"]

/-- `str(Origin(url).swhid())` of the legacy branch -/
def originSwhidText (ids : IdFns) (url : Val) : Except ErrKind PStr := do
  let o ← mkOrigin ids url (.bytes [])
  let sw ← mkBase extTags tOri o.id
  .ok (swhidText sw)

/-- the "old schema" rewriting at the top of `RawExtrinsicMetadata.from_dict` (on a copy) -/
def remLegacy (ids : IdFns) (kv : KV) : Except ErrKind KV :=
  match lookup k!"type" kv with
  | none => .ok kv
  | some ty =>
    let kv' := erase k!"type" kv
    if (match ty with | .str s => s == k!"origin" | _ => false) then do
      let url ← item kv' k!"target"
      let txt ← originSwhidText ids url
      .ok (setKey k!"target" (.str txt) kv')
    else .ok kv'

/-- `RawExtrinsicMetadata.from_dict` after the old-schema rewriting -/
def remCore (ids : IdFns) (kv : KV) : Except ErrKind RawExtrinsicMetadata := do
  let targetV ← item kv k!"target"
  let target ← decSwhid extTags targetV
  let authorityV ← item kv k!"authority"
  let authority ← fromDictMetadataAuthority authorityV
  let fetcherV ← item kv k!"fetcher"
  let fetcher ← fromDictMetadataFetcher fetcherV
  let snapshot ← decIfTruthy (decSwhid coreTags) (argD kv k!"snapshot" .none)
  let release ← decIfTruthy (decSwhid coreTags) (argD kv k!"release" .none)
  let revision ← decIfTruthy (decSwhid coreTags) (argD kv k!"revision" .none)
  let directory ← decIfTruthy (decSwhid coreTags) (argD kv k!"directory" .none)
  kwargs remFields kv
  let dd ← arg kv k!"discovery_date"
  let format ← arg kv k!"format"
  let metadata ← arg kv k!"metadata"
  -- converter
  let dd ← convDiscoveryDate dd
  -- validators, in field order
  let format ← decStr format
  let metadata ← decBytes metadata
  let origin ← decOptStr (argD kv k!"origin" .none)
  guardE (originCtxOk target.objectType origin) .valueError
  let visit ← decOptIntStrict (argD kv k!"visit" .none)
  guardE (visitCtxOk target.objectType origin visit) .valueError
  guardE (noneOrTruthy (argD kv k!"snapshot" .none)) .valueError
  guardE (swhidCtxOk target.objectType snapshotCtxFor tSnp snapshot) .valueError
  guardE (noneOrTruthy (argD kv k!"release" .none)) .valueError
  guardE (swhidCtxOk target.objectType releaseCtxFor tRel release) .valueError
  guardE (noneOrTruthy (argD kv k!"revision" .none)) .valueError
  guardE (swhidCtxOk target.objectType revisionCtxFor tRev revision) .valueError
  let path ← decOptBytes (argD kv k!"path" .none)
  guardE (pathCtxOk target.objectType path) .valueError
  guardE (noneOrTruthy (argD kv k!"directory" .none)) .valueError
  guardE (swhidCtxOk target.objectType directoryCtxFor tDir directory) .valueError
  let id ← decBytes (argD kv k!"id" (.bytes []))
  let o : RawExtrinsicMetadata :=
    { target, discovery_date := dd, authority, fetcher, format, metadata, origin, visit,
      snapshot, release, revision, path, directory, id }
  .ok (if id.isEmpty then { o with id := ids.rawExtrinsicMetadata o } else o)

def fromDictRawExtrinsicMetadata (ids : IdFns) (d : Val) : Except ErrKind RawExtrinsicMetadata := do
  let kv0 ← asDict .typeError d
  let kv ← remLegacy ids kv0
  remCore ids kv

/-! ### ExtID -/

def toDictExtID (o : ExtID) : Val :=
  .dict (build [(k!"extid_type", some (.str o.extid_type)), (k!"extid", some (.bytes o.extid)),
                (k!"target", some (encSwhid o.target)),
                (k!"extid_version", some (.int o.extid_version)),
                (k!"payload_type", some (encOptStr o.payload_type)),
                (k!"payload", some (encOptBytes o.payload)),
                (k!"id", some (.bytes o.id))])

/-- `d.get("id") or b""` : a falsy value (absent, `None`, empty) stands for "compute it" -/
def idOrEmpty (v : Val) : Val := if truthy v then v else .bytes []

/-- `ExtID.from_dict` (REPAIRED library: the `id` key is passed on, `id=d.get("id") or b""`;
    the shipped code dropped it and always recomputed the id) -/
def fromDictExtID (ids : IdFns) (d : Val) : Except ErrKind ExtID := do
  let kv ← asDict .typeError d
  let extid ← item kv k!"extid"
  let extid_type ← item kv k!"extid_type"
  let targetV ← item kv k!"target"
  let target ← decSwhid coreTags targetV
  -- validators, in field order
  let extid_type ← decStr extid_type
  let extid ← decBytes extid
  let extid_version ← decInt (argD kv k!"extid_version" (.int 0))
  let payload_type ← decOptStr (argD kv k!"payload_type" .none)
  let payload ← decOptBytes (argD kv k!"payload" .none)
  guardE (!(payload_type.isSome && payload.isNone)) .valueError     -- check_payload_type
  guardE (!(payload.isSome && payload_type.isNone)) .valueError     -- check_payload
  let id ← decBytes (idOrEmpty (argD kv k!"id" .none))
  let o : ExtID := { extid_type, extid, target, extid_version, payload_type, payload, id }
  .ok (if id.isEmpty then { o with id := ids.extID o } else o)

/-! ### what the constructors accept -/

def ValidPerson (_ : Person) : Prop := True
instance (o : Person) : Decidable (ValidPerson o) := by unfold ValidPerson; infer_instance

def ValidTimestamp (o : Timestamp) : Prop :=
  Gen.minSeconds ≤ o.seconds ∧ o.seconds ≤ Gen.maxSeconds ∧
  Gen.minMicroseconds ≤ o.microseconds ∧ o.microseconds ≤ Gen.maxMicroseconds
instance (o : Timestamp) : Decidable (ValidTimestamp o) := by unfold ValidTimestamp; infer_instance

/-- any offset bytes are accepted (they are not parsed by the constructor) -/
def ValidTimestampWithTimezone (o : TimestampWithTimezone) : Prop := ValidTimestamp o.timestamp
instance (o : TimestampWithTimezone) : Decidable (ValidTimestampWithTimezone o) := by
  unfold ValidTimestampWithTimezone; infer_instance

def ValidOrigin (o : Origin) : Prop := urlOk o.url = true ∧ o.id ≠ []
instance (o : Origin) : Decidable (ValidOrigin o) := by unfold ValidOrigin; infer_instance

def ValidOriginVisit (_ : OriginVisit) : Prop := True
instance (o : OriginVisit) : Decidable (ValidOriginVisit o) := by unfold ValidOriginVisit; infer_instance

def ValidOriginVisitStatus (o : OriginVisitStatus) : Prop := o.status ∈ visitStatuses
instance (o : OriginVisitStatus) : Decidable (ValidOriginVisitStatus o) := by
  unfold ValidOriginVisitStatus; infer_instance

def ValidSnapshotBranch (o : SnapshotBranch) : Prop :=
  o.target_type ∈ snapshotTargetTypes ∧
  (o.target_type ≠ kAlias → o.target.length = 20)
instance (o : SnapshotBranch) : Decidable (ValidSnapshotBranch o) := by
  unfold ValidSnapshotBranch; infer_instance

def ValidSnapshot (o : Snapshot) : Prop :=
  (∀ p ∈ o.branches, ∀ b, p.2 = some b → ValidSnapshotBranch b) ∧ o.id ≠ []
instance (o : Snapshot) : Decidable (ValidSnapshot o) := by
  unfold ValidSnapshot
  have : ∀ p : Bytes × Option SnapshotBranch, Decidable (∀ b, p.2 = some b → ValidSnapshotBranch b) := by
    intro p
    cases h : p.2 with
    | none => exact isTrue (by intro b hb; cases hb)
    | some b =>
      exact if hv : ValidSnapshotBranch b then isTrue (by intro b' hb; cases hb; exact hv)
            else isFalse (fun hf => hv (hf b rfl))
  infer_instance

def optValid {α} (P : α → Prop) : Option α → Prop
  | none => True
  | some a => P a
instance {α} (P : α → Prop) [∀ a, Decidable (P a)] (o : Option α) : Decidable (optValid P o) := by
  cases o <;> unfold optValid <;> infer_instance

def ValidRelease (o : Release) : Prop :=
  o.target_type ∈ releaseTargetTypes ∧
  (o.author = none → o.date = none) ∧
  optValid ValidTimestampWithTimezone o.date ∧ o.id ≠ []
instance (o : Release) : Decidable (ValidRelease o) := by unfold ValidRelease; infer_instance

def ValidRevision (o : Revision) : Prop :=
  o.type ∈ revisionTypes ∧
  (o.author = none → o.date = none) ∧
  (o.committer = none → o.committer_date = none) ∧
  optValid ValidTimestampWithTimezone o.date ∧
  optValid ValidTimestampWithTimezone o.committer_date ∧
  o.id ≠ [] ∧
  -- `__attrs_post_init__` leaves no legacy headers in the metadata when the attribute is empty
  (o.extra_headers = [] → optValid (fun m => mlookup kExtraHeaders m = none) o.metadata)
instance (o : Revision) : Decidable (ValidRevision o) := by unfold ValidRevision; infer_instance

def ValidDirectoryEntry (o : DirectoryEntry) : Prop :=
  bSlash ∉ o.name ∧ o.type ∈ dirEntryTypes
instance (o : DirectoryEntry) : Decidable (ValidDirectoryEntry o) := by
  unfold ValidDirectoryEntry; infer_instance

def ValidDirectory (o : Directory) : Prop :=
  (∀ e ∈ o.entries, ValidDirectoryEntry e) ∧
  namesDistinct (o.entries.map (·.name)) = true ∧ o.id ≠ []
instance (o : Directory) : Decidable (ValidDirectory o) := by unfold ValidDirectory; infer_instance

/-- contents whose `get_data` is unset (the ones a dictionary can describe) -/
def ValidContent (o : Content) : Prop :=
  0 ≤ o.length ∧ o.status ∈ contentStatuses ∧ o.get_data = none
instance (o : Content) : Decidable (ValidContent o) := by unfold ValidContent; infer_instance

def ValidSkippedContent (o : SkippedContent) : Prop :=
  -1 ≤ o.length ∧ o.status ∈ skippedStatuses
instance (o : SkippedContent) : Decidable (ValidSkippedContent o) := by
  unfold ValidSkippedContent; infer_instance

def ValidMetadataAuthority (o : MetadataAuthority) : Prop := o.type ∈ authorityTypes
instance (o : MetadataAuthority) : Decidable (ValidMetadataAuthority o) := by
  unfold ValidMetadataAuthority; infer_instance

def ValidMetadataFetcher (_ : MetadataFetcher) : Prop := True
instance (o : MetadataFetcher) : Decidable (ValidMetadataFetcher o) := by
  unfold ValidMetadataFetcher; infer_instance

/-- what `CoreSWHID(…)` / `ExtendedSWHID(…)` guarantee -/
def WfSwhid (tags : List Str) (b : BaseSwhid) : Prop := b.objectType ∈ tags ∧ b.objectId.length = 20
instance (tags : List Str) (b : BaseSwhid) : Decidable (WfSwhid tags b) := by
  unfold WfSwhid; infer_instance

def ValidRawExtrinsicMetadata (o : RawExtrinsicMetadata) : Prop :=
  WfSwhid extTags o.target ∧
  normalizeDiscoveryDate o.discovery_date = o.discovery_date ∧
  ValidMetadataAuthority o.authority ∧
  originCtxOk o.target.objectType o.origin = true ∧
  visitCtxOk o.target.objectType o.origin o.visit = true ∧
  optValid (WfSwhid coreTags) o.snapshot ∧
  swhidCtxOk o.target.objectType snapshotCtxFor tSnp o.snapshot = true ∧
  optValid (WfSwhid coreTags) o.release ∧
  swhidCtxOk o.target.objectType releaseCtxFor tRel o.release = true ∧
  optValid (WfSwhid coreTags) o.revision ∧
  swhidCtxOk o.target.objectType revisionCtxFor tRev o.revision = true ∧
  pathCtxOk o.target.objectType o.path = true ∧
  optValid (WfSwhid coreTags) o.directory ∧
  swhidCtxOk o.target.objectType directoryCtxFor tDir o.directory = true ∧
  o.id ≠ []
instance (o : RawExtrinsicMetadata) : Decidable (ValidRawExtrinsicMetadata o) := by
  unfold ValidRawExtrinsicMetadata; infer_instance

def ValidExtID (o : ExtID) : Prop :=
  WfSwhid coreTags o.target ∧ (o.payload_type.isSome = o.payload.isSome) ∧ o.id ≠ []
instance (o : ExtID) : Decidable (ValidExtID o) := by unfold ValidExtID; infer_instance

/-! ### driver entry point -/

/-- `(to_dict(from_dict(d)), to_dict(from_dict(to_dict(from_dict(d)))))` -/
def rt {α} (f : Val → Except ErrKind α) (g : α → Val) (d : Val) : Except ErrKind (Val × Val) := do
  let o ← f d
  let d1 := g o
  let o2 ← f d1
  .ok (d1, g o2)

def roundTripWith (ids : IdFns) (cls : String) (d : Val) : Except ErrKind (Val × Val) :=
  match cls with
  | "Person" => rt fromDictPerson toDictPerson d
  | "Timestamp" => rt fromDictTimestamp toDictTimestamp d
  | "TimestampWithTimezone" => rt fromDictTimestampWithTimezone toDictTimestampWithTimezone d
  | "Origin" => rt (fromDictOrigin ids) toDictOrigin d
  | "OriginVisit" => rt fromDictOriginVisit toDictOriginVisit d
  | "OriginVisitStatus" => rt fromDictOriginVisitStatus toDictOriginVisitStatus d
  | "SnapshotBranch" => rt fromDictSnapshotBranch toDictSnapshotBranch d
  | "Snapshot" => rt (fromDictSnapshot ids) toDictSnapshot d
  | "Release" => rt (fromDictRelease ids) toDictRelease d
  | "Revision" => rt (fromDictRevision ids) toDictRevision d
  | "DirectoryEntry" => rt fromDictDirectoryEntry toDictDirectoryEntry d
  | "Directory" => rt (fromDictDirectory ids) toDictDirectory d
  | "Content" => rt fromDictContent toDictContent d
  | "SkippedContent" => rt fromDictSkippedContent toDictSkippedContent d
  | "BaseContent" =>
    rt fromDictBaseContent toDictBaseContent d
  | "MetadataAuthority" => rt fromDictMetadataAuthority toDictMetadataAuthority d
  | "MetadataFetcher" => rt fromDictMetadataFetcher toDictMetadataFetcher d
  | "RawExtrinsicMetadata" => rt (fromDictRawExtrinsicMetadata ids) toDictRawExtrinsicMetadata d
  | "ExtID" => rt (fromDictExtID ids) toDictExtID d
  | _ => .error .other

end Swh.Serde
