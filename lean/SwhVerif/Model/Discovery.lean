/-!
# Model of `swh/model/discovery.py` (C17)

Executable, core-Lean-only model of `BaseDiscoveryGraph`, `RandomDirSamplingDiscoveryGraph`
and `filter_known_objects`.

* Python `set`s are modelled as lists (`sadd` / `sdel` / `sunion` / `dedup`); only membership is
  ever observed by the algorithm, except for `set.pop()` and `random.sample`, which are the two
  sources of nondeterminism.
* Nondeterminism is explicit: a scheduler `Sched ω` with an arbitrary private state `ω` answers
  every `set.pop()` (an index into the current work list, taken modulo its length) and every
  `random.sample` (a list of directory ids).  Theorems quantify over every `ω`, every `Sched ω`
  and every initial `ω`, hence over every schedule; the driver instantiates `ω` with a recorded
  script (`runScript`, `runScriptIds`).
* Loops carry fuel; every loop reports whether it left by its own exit condition (`ok`).
  `Swh.C17.terminates` proves `ok = true`.
* The archive is `K : Id → Bool` (`true` = the archive has the object);
  `*_missing(sample) = sample.filter (¬ K ·)`.
-/
namespace Swh.Discovery

abbrev Id := Nat

inductive Kind where
  | content | skipped | directory
  deriving DecidableEq, Repr

/-- `entries` = targets of the directory entries (only meaningful for directories; may point
    outside the object set). -/
structure Obj where
  id : Id
  kind : Kind
  entries : List Id
  deriving Repr

/-! ## finite sets as lists -/

/-- `set(l)` -/
def dedup : List Id → List Id
  | [] => []
  | x :: xs => x :: (dedup xs).filter (· != x)

/-- `s.add(x)` -/
def sadd (x : Id) (l : List Id) : List Id := if l.contains x then l else l ++ [x]

/-- `s.discard(x)` -/
def sdel (x : Id) (l : List Id) : List Id := l.filter (· != x)

/-- `s.update(m)` -/
def sunion (l m : List Id) : List Id := l ++ (dedup m).filter (fun x => !l.contains x)

/-! ## the graph built by `BaseDiscoveryGraph.__init__` -/

/-- The three input lists; the dictionaries `_children`, `_parents`, `_all_contents` built by
    `__init__` are the functions `children`, `parents`, `kindOf` below. -/
structure Graph where
  contents : List Obj
  skipped : List Obj
  dirs : List Obj

/-- `self._children.get(x, set())`: `_children[directory.id] = {c.target for c in entries}`
    (a later directory with the same id overwrites an earlier one, hence `reverse`). -/
def Graph.children (g : Graph) (x : Id) : List Id :=
  match g.dirs.reverse.find? (fun d => d.id == x) with
  | some d => dedup d.entries
  | none => []

/-- `self._parents.get(x, set())`: every directory having an entry whose target is `x`. -/
def Graph.parents (g : Graph) (x : Id) : List Id :=
  dedup ((g.dirs.filter (fun d => d.entries.contains x)).map (·.id))

/-- `self._all_contents[x].object_type` (skipped contents are inserted after contents). -/
def Graph.kindOf (g : Graph) (x : Id) : Kind :=
  match (g.contents ++ g.skipped).reverse.find? (fun o => o.id == x) with
  | some o => o.kind
  | none => .content

def Graph.ids (g : Graph) : List Id :=
  g.contents.map (·.id) ++ g.skipped.map (·.id) ++ g.dirs.map (·.id)

/-- `log` = calls of `update_info_callback` in order: (object id, `known` flag). -/
structure State where
  undecided : List Id
  undecidedDirs : List Id
  known : List Id
  unknown : List Id
  log : List (Id × Bool)
  deriving Repr

/-- state at the end of `__init__` -/
def Graph.init (g : Graph) : State where
  undecided := dedup g.ids
  undecidedDirs := dedup (g.dirs.map (·.id))
  known := []
  unknown := []
  log := []

/-! ## `_mark_entries` -/

/-- which of `mark_known` / `mark_unknown` is running -/
inductive Target where
  | known | unknown
  deriving DecidableEq, Repr

/-- `transitive_mapping.get(current, set())` -/
def Graph.mapping (g : Graph) : Target → Id → List Id
  | .known => g.children
  | .unknown => g.parents

/-- `target_set.add(x)` -/
def State.addTarget (t : Target) (x : Id) (s : State) : State :=
  match t with
  | .known => { s with known := sadd x s.known }
  | .unknown => { s with unknown := sadd x s.unknown }

/-- One iteration of the `while to_process:` loop, after `current = to_process.pop()` chose
    `cur` (an element of `work`). Returns the new state and the new `to_process`. -/
def popStep (g : Graph) (t : Target) (s : State) (work : List Id) (cur : Id) : State × List Id :=
  let s1 := s.addTarget t cur                                   -- target_set.add(current)
  let new := s.undecided.contains cur                           -- new = current in self.undecided
  let und := sdel cur s.undecided                               -- self.undecided.discard(current)
  let undD := sdel cur s.undecidedDirs                          -- self._undecided_directories.discard
  let next := (g.mapping t cur).filter (fun x => und.contains x) -- mapping.get(current) & undecided
  let work' := sunion (sdel cur work) next                      -- to_process.update(next_entries)
  let log := if new then s.log ++ [(cur, s1.known.contains cur)] else s.log  -- callback
  ({ s1 with undecided := und, undecidedDirs := undD, log := log }, work')

/-- Scheduler: resolves the two nondeterministic operations. `ω` is private scheduler state. -/
structure Sched (ω : Type) where
  /-- `to_process.pop()`: index (modulo length) into the current non-empty work list -/
  pick : ω → List Id → Nat × ω
  /-- `random.sample(tuple(self._undecided_directories), SAMPLE_SIZE)` -/
  sample : ω → State → List Id × ω

/-- element chosen by index `i` (modulo length) in the non-empty list `x :: xs` -/
def pickAt (x : Id) (xs : List Id) (i : Nat) : Id := (x :: xs).getD (i % (xs.length + 1)) x

/-- The `while to_process:` loop with fuel. Returns final state, scheduler state and the
    left-over work list (`[]` iff the loop left by its own exit condition). -/
def markLoop {ω : Type} (g : Graph) (t : Target) (O : Sched ω) :
    Nat → ω → State → List Id → State × ω × List Id
  | 0, o, s, w => (s, o, w)
  | _ + 1, o, s, [] => (s, o, [])
  | f + 1, o, s, x :: xs =>
    let (i, o') := O.pick o (x :: xs)
    let (s', w') := popStep g t s (x :: xs) (pickAt x xs i)
    markLoop g t O f o' s' w'

/-- threaded run state: graph state, scheduler state, "every loop so far ended normally" -/
structure Run (ω : Type) where
  st : State
  orc : ω
  ok : Bool

/-- fuel that always suffices for `_mark_entries` (see `markLoop_fuel`) -/
def markFuel (s : State) (w : List Id) : Nat := 2 * s.undecided.length + w.length + 1

/-- `_mark_entries(entries, mapping, target_set)` -/
def markEntries {ω : Type} (g : Graph) (t : Target) (O : Sched ω) (r : Run ω)
    (entries : List Id) : Run ω :=
  let w := dedup entries                                        -- to_process = set(entries)
  let (s', o', left) := markLoop g t O (markFuel r.st w) r.orc r.st w
  { st := s', orc := o', ok := r.ok && left.isEmpty }

/-! ## `do_query` -/

structure Sample where
  contents : List Id
  skipped : List Id
  dirs : List Id
  deriving Repr

def Sample.all (smp : Sample) : List Id := smp.contents ++ smp.skipped ++ smp.dirs

/-- body of the `for sample_per_type, method in zip(sample, methods)` loop -/
def queryPart {ω : Type} (g : Graph) (K : Id → Bool) (O : Sched ω) (r : Run ω)
    (sample : List Id) : Run ω :=
  if sample.isEmpty then r                                      -- if not sample_per_type: continue
  else
    let unknown := dedup (sample.filter (fun x => !K x))        -- set(method(list(sample)))
    let known := (dedup sample).filter (fun x => !unknown.contains x) -- set(sample) - unknown
    let r1 := markEntries g .known O r known                    -- self.mark_known(known)
    markEntries g .unknown O r1 unknown                         -- self.mark_unknown(unknown)

def doQuery {ω : Type} (g : Graph) (K : Id → Bool) (O : Sched ω) (r : Run ω) (smp : Sample) :
    Run ω :=
  queryPart g K O (queryPart g K O (queryPart g K O r smp.contents) smp.skipped) smp.dirs

/-! ## `RandomDirSamplingDiscoveryGraph.get_sample` -/

/-- `n` = `SAMPLE_SIZE`.  For an object of kind `directory` found in `_all_contents` the Python
    raises `TypeError`; this cannot happen when the `contents` / `skipped_contents` lists hold
    objects of the right kind, the model files such an id under `skipped`. -/
def getSample {ω : Type} (g : Graph) (n : Nat) (O : Sched ω) (o : ω) (s : State) : Sample × ω :=
  if s.undecidedDirs.isEmpty then
    ({ contents := s.undecided.filter (fun x => g.kindOf x == .content)
       skipped := s.undecided.filter (fun x => g.kindOf x != .content)
       dirs := [] }, o)
  else if s.undecidedDirs.length ≤ n then
    ({ contents := [], skipped := [], dirs := s.undecidedDirs }, o)
  else
    let (l, o') := O.sample o s
    ({ contents := [], skipped := [], dirs := dedup l }, o')

/-! ## `filter_known_objects` -/

/-- one iteration of the outer loop: `sample = graph.get_sample(); graph.do_query(archive, sample)` -/
def queryStep {ω : Type} (g : Graph) (K : Id → Bool) (n : Nat) (O : Sched ω) (r : Run ω) : Run ω :=
  let (smp, o') := getSample g n O r.orc r.st
  doQuery g K O { r with orc := o' } smp

/-- `while graph.undecided: sample = graph.get_sample(); graph.do_query(archive, sample)`
    with fuel; the `Nat` counts the queries (loop iterations). -/
def runLoop {ω : Type} (g : Graph) (K : Id → Bool) (n : Nat) (O : Sched ω) :
    Nat → Run ω → Nat → Run ω × Nat
  | 0, r, q => ({ r with ok := r.ok && r.st.undecided.isEmpty }, q)
  | f + 1, r, q =>
    if r.st.undecided.isEmpty then (r, q)
    else runLoop g K n O f (queryStep g K n O r) (q + 1)

/-- fuel of the outer loop: number of input objects + 1 -/
def runFuel (g : Graph) : Nat := g.contents.length + g.skipped.length + g.dirs.length + 1

/-- graph state after the `while graph.undecided` loop, and number of queries -/
def discover {ω : Type} (g : Graph) (K : Id → Bool) (n : Nat) (O : Sched ω) (o : ω) :
    Run ω × Nat :=
  runLoop g K n O (runFuel g) { st := g.init, orc := o, ok := true } 0

structure Result where
  /-- `contents`, `skipped_contents`, `directories` returned by `filter_known_objects` -/
  contents : List Obj
  skipped : List Obj
  directories : List Obj
  /-- `update_info_callback` calls, in order -/
  log : List (Id × Bool)
  /-- number of `do_query` calls -/
  queries : Nat
  /-- every loop left by its own exit condition (no fuel ran out) -/
  ok : Bool
  deriving Repr

def Result.contentIds (r : Result) : List Id := r.contents.map (·.id)
def Result.skippedIds (r : Result) : List Id := r.skipped.map (·.id)
def Result.directoryIds (r : Result) : List Id := r.directories.map (·.id)

/-- `filter_known_objects(archive, update_info_callback)` with `SAMPLE_SIZE = n` -/
def filterKnownObjects {ω : Type} (contents skipped dirs : List Obj) (K : Id → Bool) (n : Nat)
    (O : Sched ω) (o : ω) : Result :=
  let g : Graph := { contents := contents, skipped := skipped, dirs := dirs }
  let (r, q) := discover g K n O o
  { contents := contents.filter (fun c => r.st.unknown.contains c.id)
    skipped := skipped.filter (fun c => r.st.unknown.contains c.id)
    directories := dirs.filter (fun c => r.st.unknown.contains c.id)
    log := r.st.log
    queries := q
    ok := r.ok }

/-! ## concrete schedulers -/

/-- stateless scheduler from a chooser and a sampler -/
def Sched.ofFun (pick : List Id → Nat) (sampler : State → List Id) : Sched Unit where
  pick := fun _ w => (pick w, ())
  sample := fun _ s => (sampler s, ())

/-- A recorded sample made usable in the current state: restricted to the undecided
    directories; if nothing is left (or the script is exhausted) the first `max n 1`
    undecided directories are taken.  The identity on samples recorded from a real run. -/
def sanitize (n : Nat) (s : State) (l : List Id) : List Id :=
  let l' := l.filter (fun x => s.undecidedDirs.contains x)
  if l'.isEmpty then s.undecidedDirs.take (max n 1) else l'

/-- script = (remaining samples, remaining pop choices); pop choices are indices -/
def scriptSched (n : Nat) : Sched (List (List Id) × List Nat) where
  pick := fun (ss, ps) _ =>
    match ps with
    | [] => (0, (ss, []))
    | p :: ps => (p, (ss, ps))
  sample := fun (ss, ps) s =>
    match ss with
    | [] => (sanitize n s [], ([], ps))
    | l :: ss => (sanitize n s l, (ss, ps))

/-- as `scriptSched`, but every pop choice is the *id* that was popped (index 0 if that id is
    not in the work list) -/
def scriptSchedIds (n : Nat) : Sched (List (List Id) × List Id) where
  pick := fun (ss, ps) w =>
    match ps with
    | [] => (0, (ss, []))
    | p :: ps => ((if w.contains p then w.idxOf p else 0), (ss, ps))
  sample := fun (ss, ps) s =>
    match ss with
    | [] => (sanitize n s [], ([], ps))
    | l :: ss => (sanitize n s l, (ss, ps))

/-- Replay: `samples` = one list of directory ids per query in which `random.sample` was called
    (not consumed when all undecided directories are taken, nor in the contents branch);
    `picks` = one index per `to_process.pop()` (index into the model's work list modulo its
    length; `0` once exhausted). -/
def runScript (sampleSize : Nat) (contents skipped dirs : List Obj) (K : Id → Bool)
    (samples : List (List Id)) (picks : List Nat) : Result :=
  filterKnownObjects contents skipped dirs K sampleSize (scriptSched sampleSize) (samples, picks)

/-- Replay where `pops` lists the ids returned by the successive `to_process.pop()` calls. -/
def runScriptIds (sampleSize : Nat) (contents skipped dirs : List Obj) (K : Id → Bool)
    (samples : List (List Id)) (pops : List Id) : Result :=
  filterKnownObjects contents skipped dirs K sampleSize (scriptSchedIds sampleSize) (samples, pops)

end Swh.Discovery
