import SwhVerif.Base.Bytes
import SwhVerif.Model.Directory
import SwhVerif.Model.Hash
import SwhVerif.Gen.Tables
/-!
  Model of `swh.model.from_disk` (C06, C13): `mode_to_perms`, `Content.from_bytes / from_symlink /
  from_file`, the shipped path filters, `Directory.from_disk` (two passes), `Directory.__getitem__`,
  `MerkleNode.iter_tree(dedup=True)`, `Content.to_model / Directory.to_model`, `iter_directory`;
  plus the *specification side*: physical pruning of an on-disk tree and git's own tree id
  (`gitTreeOf`, written from git's rules, not from the library's).

  The hash `H : Bytes → Bytes` is a parameter (`sha1` in the driver).  Only `sha1_git` is carried
  by a content: the other digests are functions of the same bytes (`Content.data`) and never enter
  a directory id.

  Two readers are given.
  * `readTree` — the two passes of `from_disk` written by structural recursion over the on-disk
    tree (pass 1 `walkEntries`: the filter sees the **on-disk listing**; pass 2 `refilter`:
    bottom-up, the filter sees the **current children**).
  * `fromDisk` — the same two passes *as coded*: explicit `to_visit` stack, `dirs[root].update`,
    the `filtered` list and its `del`s, the breadth-first `traversal` list walked in reverse
    with `del top_dir[dirpath]`.  `Lemmas/FsWalk*.lean` prove `fromDisk = readTree`.

  Abstractions (all documented where they occur): a path is the list of its components below
  the top directory (the code manipulates `b"top/a/b"`, resp. `b"/a/b"` in pass 2); a filter sees
  `(name, entry names)` — the three shipped filters ignore `dirpath` and look at `entries` only
  through `None`/emptiness (pass 1 really passes full entry *paths*, pass 2 passes *names*);
  `os.scandir` listing order is the order of the `dir` list.
-/
namespace Swh.Fs
open Swh

/-! ### the on-disk tree -/

/-- What `lstat`/`readlink`/`read`/`scandir` report.  `mode` is the full `st_mode`.
    `dir` lists `(name, child)` in the order `os.scandir` yields them. -/
inductive FsNode where
  | file (mode : Nat) (data : Bytes)
  | symlink (target : Bytes)
  | special (mode : Nat)
  | dir (entries : List (Bytes × FsNode))
  deriving Repr, Inhabited

def S_IFMT : Nat := 0o170000
def S_IFLNK : Nat := 0o120000
def S_IFDIR : Nat := 0o040000
def S_IFREG : Nat := 0o100000

def isLnk (mode : Nat) : Bool := mode &&& S_IFMT == S_IFLNK
def isDir (mode : Nat) : Bool := mode &&& S_IFMT == S_IFDIR
def isReg (mode : Nat) : Bool := mode &&& S_IFMT == S_IFREG

/-- `st_mode` of a symbolic link (Linux: always `lrwxrwxrwx`; only the type bits matter) -/
def symlinkMode : Nat := S_IFLNK ||| 0o777

/-- `from_disk.mode_to_perms` on a full `st_mode`; values from the regenerated `DentryPerms` -/
def modeToPerms (mode : Nat) : Nat :=
  if isLnk mode then Gen.perms_symlink
  else if isDir mode then Gen.perms_directory
  else if mode &&& 0o111 ≠ 0 then Gen.perms_executable_content
  else Gen.perms_content

def FsNode.isDirNode : FsNode → Bool
  | .dir _ => true
  | _ => false

def names {α} (es : List (Bytes × α)) : List Bytes := es.map (·.1)

/-- a legal entry name: non-empty, no `'/'`, no NUL -/
def nameOk (n : Bytes) : Bool := !n.isEmpty && !n.contains bSlash && !n.contains bNUL

/-- pairwise distinct (executable `Nodup`) -/
def distinct : List Bytes → Bool
  | [] => true
  | x :: xs => !xs.contains x && distinct xs

mutual
/-- well-formed on-disk tree: names inside one directory are legal and distinct, a `file` has a
    regular-file mode, a `special` is neither regular, nor directory, nor link -/
def wfFs : FsNode → Bool
  | .file mode _ => isReg mode
  | .symlink _ => true
  | .special mode => !isReg mode && !isDir mode && !isLnk mode
  | .dir es => (names es).all nameOk && distinct (names es) && wfFsL es
def wfFsL : List (Bytes × FsNode) → Bool
  | [] => true
  | (_, c) :: r => wfFs c && wfFsL r
end

def WfFs (t : FsNode) : Prop := wfFs t = true

instance (t : FsNode) : Decidable (WfFs t) := inferInstanceAs (Decidable (wfFs t = true))

/-- child lookup in an association list (first match) -/
def assoc {α} (n : Bytes) : List (Bytes × α) → Option α
  | [] => none
  | (k, v) :: r => if k = n then some v else assoc n r

/-- the on-disk node at a path (components below the node) -/
def FsNode.sub : FsNode → List Bytes → Option FsNode
  | t, [] => some t
  | .dir es, c :: rest =>
    match assoc c es with
    | some ch => FsNode.sub ch rest
    | none => none
  | _, _ :: _ => none

mutual
def FsNode.size : FsNode → Nat
  | .dir es => 1 + FsNode.sizeL es
  | _ => 1
def FsNode.sizeL : List (Bytes × FsNode) → Nat
  | [] => 0
  | (_, c) :: r => FsNode.size c + FsNode.sizeL r
end

/-! ### the in-memory tree (`from_disk.Content` / `from_disk.Directory`) -/

/-- the data dictionary of a `from_disk.Content`, restricted to what the properties speak of.
    `data` is the bytes the object stands for: held in the dictionary when `eager`
    (`from_bytes`: symlinks, special files), re-read from `path` by `DiskBackedData` otherwise
    (`from_file` on a regular file).  `skipped` is `status == "absent"`. -/
structure Content where
  perms : Nat
  sha1git : Bytes
  length : Nat
  data : Bytes
  eager : Bool
  skipped : Bool
  deriving Repr, DecidableEq, Inhabited

/-- `from_disk.Content | from_disk.Directory`; a directory is its `dict` in insertion order -/
inductive RNode where
  | content (c : Content)
  | directory (entries : List (Bytes × RNode))
  deriving Repr, Inhabited

abbrev Result := RNode

inductive Err where
  /-- `raise Exception(f"Symlink too large ({length} bytes)")`; the length is not modelled (with
      several oversized links, which one is reported depends on the visiting order) -/
  | symlinkTooLarge
  /-- `os.scandir` on something that is not a directory -/
  | notADirectory
  /-- `KeyError` from `__getitem__`/`__delitem__` (never raised on a well-formed tree: theorem) -/
  | keyError
  /-- `assert node.object_type == DIRECTORY`, `ValueError("... is a leaf")`, fuel exhaustion:
      unreachable (theorem) -/
  | internal
  deriving Repr, DecidableEq, Inhabited

def RNode.isDirectory : RNode → Bool
  | .directory _ => true
  | _ => false

/-- `Content.from_bytes(mode=…, data=…)` -/
def fromBytes (H : Bytes → Bytes) (mode : Nat) (data : Bytes) : Content :=
  { perms := modeToPerms mode, sha1git := H (Hash.gitBlob data), length := data.length,
    data := data, eager := true, skipped := false }

/-- `max_content_length is not None and length > max_content_length` -/
def tooLarge (maxLen : Option Nat) (length : Nat) : Bool :=
  match maxLen with
  | none => false
  | some m => decide (m < length)

/-- `Content.from_file(path=…, max_content_length=…)` on a non-directory.
    Symbolic link: its text, never followed; raises when too large.  Not a regular file: the
    empty content (never skipped).  Regular file: hashes of its bytes, `length = st_size`,
    `status = "absent"` when too large (same hashes, same length, no data attached). -/
def fromFile (H : Bytes → Bytes) (maxLen : Option Nat) : FsNode → Except Err Content
  | .symlink target =>
    if tooLarge maxLen target.length then .error .symlinkTooLarge
    else .ok (fromBytes H symlinkMode target)
  | .special mode => .ok (fromBytes H mode [])
  | .file mode data =>
    .ok { perms := modeToPerms mode, sha1git := H (Hash.gitBlob data), length := data.length,
          data := data, eager := false, skipped := tooLarge maxLen data.length }
  | .dir _ => .error .internal

/-! ### path filters -/

/-- `path_filter(path, name, entries)` without `path`: `entries` is `none` for a non-directory,
    the list of entry names for a directory -/
abbrev PathFilter := Bytes → Option (List Bytes) → Bool

/-- `bytes.lower()` -/
def lowerByte (b : Byte) : Byte := if 65 ≤ b.toNat && b.toNat ≤ 90 then b + 32 else b
def lower (bs : Bytes) : Bytes := bs.map lowerByte

/-- `dirname in names` / `dirname.lower() in [n.lower() for n in names]` -/
def nameIgnored (nms : List Bytes) (caseSensitive : Bool) (n : Bytes) : Bool :=
  if caseSensitive then nms.contains n else (nms.map lower).contains (lower n)

inductive Filter where
  | acceptAll
  | ignoreEmpty
  | ignoreNamed (names : List Bytes) (caseSensitive : Bool)
  /-- `lambda p, n, e: ignore_named_directories(names)(p, n, e) and ignore_empty_directories(p, n, e)` -/
  | namedThenEmpty (names : List Bytes) (caseSensitive : Bool)
  deriving Repr

/-- `accept_all_paths` -/
def acceptAllPaths : PathFilter := fun _ _ => true
/-- `ignore_empty_directories` -/
def ignoreEmptyDirectories : PathFilter := fun _ entries =>
  match entries with
  | none => true
  | some l => !l.isEmpty
/-- `ignore_named_directories(names, case_sensitive=…)` -/
def ignoreNamedDirectories (nms : List Bytes) (caseSensitive : Bool) : PathFilter := fun n entries =>
  match entries with
  | none => true
  | some _ => !nameIgnored nms caseSensitive n

def Filter.fn : Filter → PathFilter
  | .acceptAll => acceptAllPaths
  | .ignoreEmpty => ignoreEmptyDirectories
  | .ignoreNamed nms cs => ignoreNamedDirectories nms cs
  | .namedThenEmpty nms cs => fun n e => ignoreNamedDirectories nms cs n e && ignoreEmptyDirectories n e

/-! ### `Directory.from_disk`, structurally -/

/-- `path[0:1] + path[1:].rstrip(b"/")` guarded by `1 < len(path) and path[-1:] == b"/"` -/
def rstripSlash (p : Bytes) : Bytes := (p.reverse.dropWhile (· == bSlash)).reverse

def normalizeTop (p : Bytes) : Bytes :=
  if 1 < p.length && p.getLast? == some bSlash then p.take 1 ++ rstripSlash (p.drop 1) else p

/-- the filter call of pass 1 on an entry of the listing: `path_filter(path, name, [entry.path …])`
    for a directory (its on-disk listing), `path_filter(root, name, None)` otherwise -/
def accepts (f : PathFilter) (n : Bytes) (c : FsNode) : Bool :=
  match c with
  | .dir ces => f n (some (names ces))
  | _ => f n none

mutual
/-- pass 1 below one directory: what `dirs[root]` holds once the stack walk is over and the
    `filtered` paths are deleted.  A sub-directory is dropped — and not read — when the filter
    rejects `(name, on-disk listing)`; a non-directory is kept iff the filter accepts
    `(name, None)`. -/
def walkNode (H : Bytes → Bytes) (f : PathFilter) (maxLen : Option Nat) : FsNode → Except Err RNode
  | .dir es =>
    match walkEntries H f maxLen es with
    | .error e => .error e
    | .ok m => .ok (.directory m)
  | .file mode data =>
    match fromFile H maxLen (.file mode data) with
    | .error e => .error e
    | .ok c => .ok (.content c)
  | .symlink t =>
    match fromFile H maxLen (.symlink t) with
    | .error e => .error e
    | .ok c => .ok (.content c)
  | .special mode =>
    match fromFile H maxLen (.special mode) with
    | .error e => .error e
    | .ok c => .ok (.content c)
def walkEntries (H : Bytes → Bytes) (f : PathFilter) (maxLen : Option Nat) :
    List (Bytes × FsNode) → Except Err (List (Bytes × RNode))
  | [] => .ok []
  | (n, c) :: rest =>
    if accepts f n c then
      match walkNode H f maxLen c with
      | .error e => .error e
      | .ok c' =>
        match walkEntries H f maxLen rest with
        | .error e => .error e
        | .ok r => .ok ((n, c') :: r)
    else walkEntries H f maxLen rest
end

/-- `list(node.keys())` / the items of a directory (nothing for a content) -/
def RNode.entries : RNode → List (Bytes × RNode)
  | .directory es => es
  | .content _ => []

mutual
/-- pass 2: bottom-up, a sub-directory is deleted when the filter rejects
    `(name, list(node.keys()))` — its *current* children, after its own sub-directories were
    re-filtered.  The top is never tested. -/
def refilter (f : PathFilter) : RNode → RNode
  | .directory es => .directory (refilterL f es)
  | .content c => .content c
def refilterL (f : PathFilter) : List (Bytes × RNode) → List (Bytes × RNode)
  | [] => []
  | (n, c) :: rest =>
    match c with
    | .content cc => (n, .content cc) :: refilterL f rest
    | .directory _ =>
      let c' := refilter f c
      if f n (some (names c'.entries)) then (n, c') :: refilterL f rest
      else refilterL f rest
end

/-- `Directory.from_disk(path=top, path_filter=f, max_content_length=maxLen)` -/
def readTree (H : Bytes → Bytes) (f : PathFilter) (maxLen : Option Nat) (top : FsNode) :
    Except Err Result :=
  match top with
  | .dir es =>
    match walkEntries H f maxLen es with
    | .error e => .error e
    | .ok m => .ok (refilter f (.directory m))
  | _ => .error .notADirectory

/-- same, on the `Filter` datatype -/
def readTreeF (H : Bytes → Bytes) (flt : Filter) (maxLen : Option Nat) (top : FsNode) :
    Except Err Result := readTree H flt.fn maxLen top

/-! ### hashes, entries, lookup -/

/-- `Directory.child_to_directory_entry(name, child)` given the child's hash -/
def mkEntry (n : Bytes) (c : RNode) (target : Bytes) : Entry :=
  match c with
  | .content cc => ⟨n, .file, cc.perms, target⟩
  | .directory _ => ⟨n, .dir, Gen.perms_directory, target⟩

mutual
/-- `node.hash` after `update_hash(force=True)`: a content's `sha1_git`; a directory's
    `model.Directory(entries).id`, i.e. `H` of the git tree manifest of its entries -/
def RNode.id (H : Bytes → Bytes) : RNode → Bytes
  | .content c => c.sha1git
  | .directory es => H (dirManifest (entriesOf H es))
/-- the `DirectoryEntry`s of a directory, in `dict` order (sorting happens in the manifest) -/
def entriesOf (H : Bytes → Bytes) : List (Bytes × RNode) → List Entry
  | [] => []
  | (n, c) :: r => mkEntry n c (RNode.id H c) :: entriesOf H r
end

def rootId (H : Bytes → Bytes) (r : Result) : Bytes := r.id H

/-- perms a node is listed with in its parent (`40000` for a directory, also used for the top) -/
def RNode.perms : RNode → Nat
  | .content c => c.perms
  | .directory _ => Gen.perms_directory

/-- `directory[key]` with `key` already split at `'/'`: an empty component stays on the current
    directory (`key == b""` shortcut), indexing a `Content` raises (`none`), a missing name
    raises `KeyError` (`none`). -/
def RNode.lookup : RNode → List Bytes → Option RNode
  | n, [] => some n
  | .content _, _ :: _ => none
  | .directory es, c :: rest =>
    if c = [] then RNode.lookup (.directory es) rest
    else match assoc c es with
      | some ch => RNode.lookup ch rest
      | none => none

def lookup (r : Result) (path : List Bytes) : Option RNode := r.lookup path

/-- `directory[key]` for a byte-string key (`key.split(b"/")`) -/
def lookupKey (r : Result) (key : Bytes) : Option RNode := r.lookup (splitOn bSlash key)

mutual
/-- every node with its path, pre-order in `dict` order, the root first with path `[]` -/
def allNodesAux : List Bytes → RNode → List (List Bytes × RNode)
  | p, .content c => [(p, .content c)]
  | p, .directory es => (p, .directory es) :: allNodesL p es
def allNodesL : List Bytes → List (Bytes × RNode) → List (List Bytes × RNode)
  | _, [] => []
  | p, (n, c) :: r => allNodesAux (p ++ [n]) c ++ allNodesL p r
end

def allNodes (r : Result) : List (List Bytes × RNode) := allNodesAux [] r

inductive Kind where
  | content | skippedContent | directory
  deriving Repr, DecidableEq

def RNode.kind : RNode → Kind
  | .content c => if c.skipped then .skippedContent else .content
  | .directory _ => .directory

/-- driver accessor: `(path components, kind, id, perms)` of every node -/
def nodeTable (H : Bytes → Bytes) (r : Result) : List (List Bytes × Kind × Bytes × Nat) :=
  (allNodes r).map (fun pn => (pn.1, pn.2.kind, pn.2.id H, pn.2.perms))

/-! ### export: `iter_tree(dedup=True)`, `to_model`, `iter_directory` -/

mutual
/-- `MerkleNode._iter_tree(seen, dedup=True)`: returns the updated `seen` and what is yielded -/
def iterNode (H : Bytes → Bytes) : RNode → List Bytes → List Bytes × List RNode
  | .content c, seen =>
    if c.sha1git ∈ seen then (seen, []) else (c.sha1git :: seen, [.content c])
  | .directory es, seen =>
    let h := H (dirManifest (entriesOf H es))
    if h ∈ seen then (seen, [])
    else
      let r := iterList H es (h :: seen)
      (r.1, .directory es :: r.2)
def iterList (H : Bytes → Bytes) : List (Bytes × RNode) → List Bytes → List Bytes × List RNode
  | [], seen => (seen, [])
  | (_, c) :: rest, seen =>
    let r1 := iterNode H c seen
    let r2 := iterList H rest r1.1
    (r2.1, r1.2 ++ r2.2)
end

/-- `root.iter_tree()` -/
def iterTree (H : Bytes → Bytes) (r : Result) : List RNode := (iterNode H r []).2

/-- `model.Content` with its data loaded (`with_data()`) -/
structure ContentObj where
  sha1git : Bytes
  length : Nat
  data : Bytes
  deriving Repr, DecidableEq

/-- `model.SkippedContent` (`status="absent"`, `reason="Content too large"`): no data -/
structure SkippedObj where
  sha1git : Bytes
  length : Nat
  deriving Repr, DecidableEq

/-- `model.Directory`: entries sorted by `directory_entry_sort_key`, `id` as computed -/
structure DirObj where
  id : Bytes
  entries : List Entry
  deriving Repr, DecidableEq

/-- `Directory.to_model()` (ignores the children's contents) -/
def toModelDir (H : Bytes → Bytes) (es : List (Bytes × RNode)) : DirObj :=
  { id := H (dirManifest (entriesOf H es)), entries := sortEntries (entriesOf H es) }

def contentObjs : List RNode → List ContentObj
  | [] => []
  | .content c :: r =>
    if c.skipped then contentObjs r else ⟨c.sha1git, c.length, c.data⟩ :: contentObjs r
  | .directory _ :: r => contentObjs r

def skippedObjs : List RNode → List SkippedObj
  | [] => []
  | .content c :: r =>
    if c.skipped then ⟨c.sha1git, c.length⟩ :: skippedObjs r else skippedObjs r
  | .directory _ :: r => skippedObjs r

def dirObjs (H : Bytes → Bytes) : List RNode → List DirObj
  | [] => []
  | .content _ :: r => dirObjs H r
  | .directory es :: r => toModelDir H es :: dirObjs H r

/-- `from_disk.iter_directory(directory)`: (contents with data, skipped contents, directories) -/
def iterDirectory (H : Bytes → Bytes) (r : Result) :
    List ContentObj × List SkippedObj × List DirObj :=
  let t := iterTree H r
  (contentObjs t, skippedObjs t, dirObjs H t)

/-- model-level integrity check of an exported content: `sha1_git` is the git blob id of the
    data, `length` its length -/
def ContentObj.check (H : Bytes → Bytes) (o : ContentObj) : Bool :=
  o.sha1git == H (Hash.gitBlob o.data) && o.length == o.data.length

/-- model-level integrity check of an exported directory (`Directory.check()`):
    the id is the hash of the manifest of the entries -/
def DirObj.check (H : Bytes → Bytes) (o : DirObj) : Bool := o.id == H (dirManifest o.entries)

/-! ### physical pruning of the on-disk tree (specification side of C13) -/

def FsNode.entryNames : FsNode → Option (List Bytes)
  | .dir es => some (names es)
  | _ => none

/-- the listing of a directory (nothing for a non-directory) -/
def FsNode.entries : FsNode → List (Bytes × FsNode)
  | .dir es => es
  | _ => []

mutual
/-- remove, bottom-up, every entry (below the top) the filter rejects when shown the entry's
    name and the names it *then* contains -/
def pruneBy (f : PathFilter) : FsNode → FsNode
  | .dir es => .dir (pruneByL f es)
  | t => t
def pruneByL (f : PathFilter) : List (Bytes × FsNode) → List (Bytes × FsNode)
  | [] => []
  | (n, c) :: rest =>
    match c with
    | .dir _ =>
      let c' := pruneBy f c
      if f n (some (names c'.entries)) then (n, c') :: pruneByL f rest else pruneByL f rest
    | leaf => if f n none then (n, leaf) :: pruneByL f rest else pruneByL f rest
end

mutual
/-- `rm -r` every sub-directory, at any depth below the top, whose name is in the list -/
def pruneNamed (nms : List Bytes) (cs : Bool) : FsNode → FsNode
  | .dir es => .dir (pruneNamedL nms cs es)
  | t => t
def pruneNamedL (nms : List Bytes) (cs : Bool) : List (Bytes × FsNode) → List (Bytes × FsNode)
  | [] => []
  | (n, c) :: rest =>
    match c with
    | .dir _ =>
      if nameIgnored nms cs n then pruneNamedL nms cs rest
      else (n, pruneNamed nms cs c) :: pruneNamedL nms cs rest
    | leaf => (n, leaf) :: pruneNamedL nms cs rest
end

mutual
/-- `rmdir` empty sub-directories until none is left (deepest first): a directory holding only
    (recursively) empty directories disappears; the top stays -/
def pruneEmpty : FsNode → FsNode
  | .dir es => .dir (pruneEmptyL es)
  | t => t
def pruneEmptyL : List (Bytes × FsNode) → List (Bytes × FsNode)
  | [] => []
  | (n, c) :: rest =>
    match c with
    | .dir _ =>
      let c' := pruneEmpty c
      if c'.entries.isEmpty then pruneEmptyL rest else (n, c') :: pruneEmptyL rest
    | leaf => (n, leaf) :: pruneEmptyL rest
end

/-- the physical pruning that corresponds to each shipped filter -/
def Filter.prune : Filter → FsNode → FsNode
  | .acceptAll, t => t
  | .ignoreEmpty, t => pruneEmpty t
  | .ignoreNamed nms cs, t => pruneNamed nms cs t
  | .namedThenEmpty nms cs, t => pruneEmpty (pruneNamed nms cs t)

/-! ### git's own rules (specification side of C06) -/

/-- an entry of a git tree object -/
structure GitEnt where
  mode : Bytes      -- ASCII octal, as git prints it
  name : Bytes
  isTree : Bool
  id : Bytes
  deriving Repr, DecidableEq

def gitModeFile : Bytes := asc ['1','0','0','6','4','4']
def gitModeExec : Bytes := asc ['1','0','0','7','5','5']
def gitModeLink : Bytes := asc ['1','2','0','0','0','0']
def gitModeTree : Bytes := asc ['4','0','0','0','0']

/-- insertion into a list kept in git's `base_name_compare` order -/
def gitInsert (e : GitEnt) : List GitEnt → List GitEnt
  | [] => [e]
  | x :: xs =>
    if gitBaseNameCompare e.name e.isTree x.name x.isTree == .gt then x :: gitInsert e xs
    else e :: x :: xs

def gitSort : List GitEnt → List GitEnt
  | [] => []
  | e :: es => gitInsert e (gitSort es)

/-- the tree object git writes for a set of index entries at one level -/
def gitTreeObject (es : List GitEnt) : Bytes :=
  gitObject (asc ['t','r','e','e'])
    (((gitSort es).map (fun e => e.mode ++ bSP :: (e.name ++ bNUL :: e.id))).flatten)

/-- `.git`, `.gitignore`, `.gitattributes`, `.gitmodules`, … (any case): such names change what
    `git add -A` records (or are refused); trees containing them are outside the specification -/
def dotGitName (n : Bytes) : Bool := (lower (n.take 4)) == asc ['.','g','i','t']

mutual
/-- the index entries below a node: those of its listing for a directory, none otherwise -/
def gitBelow (H : Bytes → Bytes) : FsNode → Option (List GitEnt)
  | .dir es => gitEntries H es
  | _ => some []
/-- The index entries `git add -A` records for the content of a directory, one level at a time,
    and the trees `git write-tree` builds from them.  A regular file is a blob of its bytes with
    mode `100755` iff the **owner** execute bit is set (`create_ce_mode`), else `100644`; a
    symbolic link is a `120000` blob of its text; a sub-directory appears iff at least one file
    or link lies somewhere below it (the index has no entry for a directory); a special file
    cannot be added (`none`). -/
def gitEntries (H : Bytes → Bytes) : List (Bytes × FsNode) → Option (List GitEnt)
  | [] => some []
  | (n, c) :: rest =>
    if dotGitName n then none else
    match gitEntries H rest with
    | none => none
    | some r =>
      match c with
      | .file mode data =>
        some (⟨if mode &&& 0o100 ≠ 0 then gitModeExec else gitModeFile, n, false,
                H (Hash.gitBlob data)⟩ :: r)
      | .symlink t => some (⟨gitModeLink, n, false, H (Hash.gitBlob t)⟩ :: r)
      | .special _ => none
      | .dir _ =>
        match gitBelow H c with
        | none => none
        | some [] => some r
        | some (e :: es) => some (⟨gitModeTree, n, true, H (gitTreeObject (e :: es))⟩ :: r)
end

/-- the id `git add -A && git write-tree` prints for the tree (`none`: not expressible) -/
def gitTreeOf (H : Bytes → Bytes) : FsNode → Option Bytes
  | .dir es =>
    match gitEntries H es with
    | none => none
    | some ents => some (H (gitTreeObject ents))
  | _ => none

mutual
/-- what `git add -A` can record faithfully: no special file, no `.git*` name, and an
    executable file is executable by its owner -/
def gitOk : FsNode → Bool
  | .file mode _ => decide (mode &&& 0o111 ≠ 0 → mode &&& 0o100 ≠ 0)
  | .symlink _ => true
  | .special _ => false
  | .dir es => gitOkL es
def gitOkL : List (Bytes × FsNode) → Bool
  | [] => true
  | (n, c) :: r => !dotGitName n && gitOk c && gitOkL r
end

/-! ### `Directory.from_disk`, as coded (explicit stack, `filtered`, breadth-first re-filter) -/

/-- `dict.__setitem__` on an insertion-ordered dict -/
def dictSet {α} (k : Bytes) (v : α) : List (Bytes × α) → List (Bytes × α)
  | [] => [(k, v)]
  | (k', v') :: r => if k' = k then (k, v) :: r else (k', v') :: dictSet k v r

/-- `dict.update(new)` -/
def dictUpdate {α} (old new : List (Bytes × α)) : List (Bytes × α) :=
  new.foldl (fun d kv => dictSet kv.1 kv.2 d) old

def dictDel {α} (k : Bytes) : List (Bytes × α) → List (Bytes × α)
  | [] => []
  | (k', v') :: r => if k' = k then r else (k', v') :: dictDel k r

/-- `dirs[path].update(entries)` where `dirs[path]` is the node at `path` below the top.
    (`MerkleNode.update` returns at once when `entries` is empty.) -/
def RNode.updateAt : List Bytes → List (Bytes × RNode) → RNode → Except Err RNode
  | [], new, .directory es => .ok (.directory (dictUpdate es new))
  | [], _, .content _ => .error .internal
  | c :: rest, new, .directory es =>
    match assoc c es with
    | none => .error .keyError
    | some ch =>
      match RNode.updateAt rest new ch with
      | .error e => .error e
      | .ok ch' => .ok (.directory (dictSet c ch' es))
  | _ :: _, _, .content _ => .error .internal

/-- `del top_dir[path]` (`path` non-empty) -/
def RNode.deleteAt : List Bytes → RNode → Except Err RNode
  | [], _ => .error .keyError
  | _ :: _, .content _ => .error .internal
  | [c], .directory es =>
    match assoc c es with
    | none => .error .keyError
    | some _ => .ok (.directory (dictDel c es))
  | c :: c2 :: rest, .directory es =>
    match assoc c es with
    | none => .error .keyError
    | some ch =>
      match RNode.deleteAt (c2 :: rest) ch with
      | .error e => .error e
      | .ok ch' => .ok (.directory (dictSet c ch' es))

/-- an element of `to_visit`: the path below the top, and what `os.scandir` will list there -/
structure Frame where
  rel : List Bytes
  listing : List (Bytes × FsNode)

/-- the `for entry in entries_list` loop: the `entries` dict and the paths appended to
    `to_visit`, both in listing order -/
def scanEntries (H : Bytes → Bytes) (f : PathFilter) (maxLen : Option Nat) (rel : List Bytes) :
    List (Bytes × FsNode) → Except Err (List (Bytes × RNode) × List Frame)
  | [] => .ok ([], [])
  | (n, c) :: rest =>
    match c with
    | .dir ces =>
      match scanEntries H f maxLen rel rest with
      | .error e => .error e
      | .ok (es, ps) => .ok ((n, .directory []) :: es, ⟨rel ++ [n], ces⟩ :: ps)
    | leaf =>
      if f n none then
        match fromFile H maxLen leaf with
        | .error e => .error e
        | .ok cc =>
          match scanEntries H f maxLen rel rest with
          | .error e => .error e
          | .ok (es, ps) => .ok ((n, .content cc) :: es, ps)
      else scanEntries H f maxLen rel rest

/-- the `while to_visit` loop.  The stack is a list whose head is the element `pop()` returns.
    State: the tree hanging from `top_dir`, and `filtered` (in append order). -/
def walkLoop (H : Bytes → Bytes) (f : PathFilter) (maxLen : Option Nat) :
    Nat → List Frame → RNode → List (List Bytes) → Except Err (RNode × List (List Bytes))
  | _, [], tree, filtered => .ok (tree, filtered)
  | 0, _ :: _, _, _ => .error .internal
  | fuel + 1, fr :: stack, tree, filtered =>
    if fr.rel ≠ [] && !f (fr.rel.getLastD []) (some (names fr.listing)) then
      walkLoop H f maxLen fuel stack tree (filtered ++ [fr.rel])
    else
      match scanEntries H f maxLen fr.rel fr.listing with
      | .error e => .error e
      | .ok (entries, pushes) =>
        match RNode.updateAt fr.rel entries tree with
        | .error e => .error e
        | .ok tree' => walkLoop H f maxLen fuel (pushes.reverse ++ stack) tree' filtered

/-- `for path in reversed(filtered): del top_dir[path]` -/
def deleteAll : List (List Bytes) → RNode → Except Err RNode
  | [], t => .ok t
  | p :: ps, t =>
    match RNode.deleteAt p t with
    | .error e => .error e
    | .ok t' => deleteAll ps t'

def childDirs (p : List Bytes) : List (Bytes × RNode) → List (List Bytes × RNode)
  | [] => []
  | (n, .directory es) :: r => (p ++ [n], .directory es) :: childDirs p r
  | (_, .content _) :: r => childDirs p r

/-- the `while todo` loop: `todo.pop(0)`, `traversal.append(cpath)`, sub-directories appended -/
def bfsLoop : Nat → List (List Bytes × RNode) → List (List Bytes)
  | _, [] => []
  | 0, _ :: _ => []
  | fuel + 1, (p, n) :: q =>
    match n with
    | .directory es => p :: bfsLoop fuel (q ++ childDirs p es)
    | .content _ => p :: bfsLoop fuel q

mutual
def RNode.size : RNode → Nat
  | .directory es => 1 + RNode.sizeL es
  | .content _ => 1
def RNode.sizeL : List (Bytes × RNode) → Nat
  | [] => 0
  | (_, c) :: r => RNode.size c + RNode.sizeL r
end

/-- one iteration of `for dirpath in reversed(traversal)` -/
def refilterStep (f : PathFilter) (tree : RNode) (p : List Bytes) : Except Err RNode :=
  match tree.lookup p with
  | none => .error .keyError
  | some (.content _) => .error .internal
  | some (.directory es) =>
    if p ≠ [] && !f (p.getLastD []) (some (names es)) then RNode.deleteAt p tree else .ok tree

def refilterLoop (f : PathFilter) : List (List Bytes) → RNode → Except Err RNode
  | [], t => .ok t
  | p :: ps, t =>
    match refilterStep f t p with
    | .error e => .error e
    | .ok t' => refilterLoop f ps t'

/-- `Directory.from_disk` as coded -/
def fromDisk (H : Bytes → Bytes) (f : PathFilter) (maxLen : Option Nat) (top : FsNode) :
    Except Err Result :=
  match top with
  | .dir es =>
    match walkLoop H f maxLen (FsNode.size top) [⟨[], es⟩] (.directory []) [] with
    | .error e => .error e
    | .ok (tree, filtered) =>
      match deleteAll filtered.reverse tree with
      | .error e => .error e
      | .ok tree1 =>
        refilterLoop f (bfsLoop (RNode.size tree1) [([], tree1)]).reverse tree1
  | _ => .error .notADirectory

end Swh.Fs
