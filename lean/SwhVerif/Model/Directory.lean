import SwhVerif.Base.Bytes
/-! Model of `git_objects.directory_git_object` and of an independent tree decoder (C02). -/
namespace Swh

inductive EType where
  | file | dir | rev
  deriving DecidableEq, Repr

structure Entry where
  name : Bytes
  type : EType
  perms : Nat
  target : Bytes
  deriving DecidableEq, Repr

/-- `directory_entry_sort_key` -/
def entryKey (e : Entry) : Bytes :=
  match e.type with
  | .dir => e.name ++ [bSlash]
  | _ => e.name

/-- `oct(perms)[2:] , b" ", name, b"\0", target` -/
def entryBytes (e : Entry) : Bytes := oct e.perms ++ bSP :: (e.name ++ bNUL :: e.target)

def treeTy : Bytes := asc ['t','r','e','e']

/-- the entries in manifest order: `sorted(entries, key=directory_entry_sort_key)` -/
def sortEntries (es : List Entry) : List Entry := sortByKey entryKey es

def dirBody (es : List Entry) : Bytes := ((sortEntries es).map entryBytes).flatten

def dirManifest (es : List Entry) : Bytes := gitObject treeTy (dirBody es)

/-- the part of an entry that is written into the manifest -/
def Entry.triple (e : Entry) : Nat × Bytes × Bytes := (e.perms, e.name, e.target)

/-- Independent decoder of a git tree body: `(mode, name, 20-byte id)*`. -/
def decodeTreeAux : Nat → Bytes → Option (List (Nat × Bytes × Bytes))
  | 0, _ => none
  | _ + 1, [] => some []
  | f + 1, b :: bs =>
    match splitFirst bSP (b :: bs) with
    | none => none
    | some (m, r) =>
      match parseOct m with
      | none => none
      | some perms =>
        match splitFirst bNUL r with
        | none => none
        | some (name, r2) =>
          if r2.length < 20 then none
          else match decodeTreeAux f (r2.drop 20) with
            | none => none
            | some rest => some ((perms, name, r2.take 20) :: rest)

def decodeTree (bs : Bytes) : Option (List (Nat × Bytes × Bytes)) := decodeTreeAux (bs.length + 1) bs

/-- git's `base_name_compare` (tree.c / read-cache.c): memcmp on the common prefix, then the
    next byte, with `'/'` standing in for the terminator of a directory name. Written from
    git's source as a separate specification. -/
def gitBaseNameCompare : Bytes → Bool → Bytes → Bool → Ordering
  | a :: as, d1, b :: bs, d2 =>
    if a < b then .lt else if b < a then .gt else gitBaseNameCompare as d1 bs d2
  | n1, d1, n2, d2 =>
    let c1 : Byte := match n1 with | c :: _ => c | [] => if d1 then bSlash else 0
    let c2 : Byte := match n2 with | c :: _ => c | [] => if d2 then bSlash else 0
    if c1 < c2 then .lt else if c2 < c1 then .gt else .eq

def Entry.isDir (e : Entry) : Bool := e.type = .dir

end Swh
