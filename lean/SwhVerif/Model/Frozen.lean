/-!
  Heap model of `swh.model.collections.ImmutableDict` (C11): a frozen mapping built from a
  caller's dictionary / another frozen mapping / an iterable of pairs, living in a heap that
  the caller keeps mutating.

  The heap holds two kinds of mutable containers — insertion-ordered dictionaries and lists of
  atoms — at locations drawn from one counter.  A dictionary value is an immutable atom or a
  *reference* to a list (one level of nested mutable container: exactly what distinguishes a
  shallow copy from a deep one).  Locations allocated by the library are *private*: the caller
  holds no reference to them, so a caller operation naming one (or naming a location that is
  not allocated, or a container of the wrong kind) is a no-op with output `invalid`.

  Outside the model, on purpose: reading `d[k]` (or the value returned by `copy_pop`) and then
  mutating the inner list that comes back.  `lookup`/`copyPop` return *resolved* values (a
  snapshot), never a location, so the caller cannot obtain a reference into a private
  container through the model's operations; the property is about containers the caller
  *passed in*, not about containers it is handed out.

  Everything here is computable and core-only (the driver runs it).
-/
namespace Swh.Frozen

abbrev Key := Nat
abbrev Loc := Nat

/-- a value stored in a dictionary: an immutable atom, or a reference to a mutable list -/
inductive Val where
  | atom (n : Nat)
  | listRef (l : Loc)
  deriving DecidableEq, Repr, Inhabited

/-- a fully resolved value (what `==`, `hash`, `.data`, `to_dict` see) -/
inductive RVal where
  | atom (n : Nat)
  | list (xs : List Nat)
  deriving DecidableEq, Repr, Inhabited

/-! ### Python `dict` primitives on insertion-ordered association lists -/

section Assoc
variable {α : Type}

/-- `d.get(k)` -/
def lookup (k : Key) : List (Key × α) → Option α
  | [] => none
  | (k', v) :: r => if k' = k then some v else lookup k r

/-- `d[k] = v`: overwrite in place when present (position kept), else append -/
def setItem (k : Key) (v : α) : List (Key × α) → List (Key × α)
  | [] => [(k, v)]
  | (k', v') :: r => if k' = k then (k, v) :: r else (k', v') :: setItem k v r

/-- `del d[k]` / the erasing half of `d.pop(k, None)`: the order of the rest is kept -/
def delItem (k : Key) : List (Key × α) → List (Key × α)
  | [] => []
  | (k', v') :: r => if k' = k then r else (k', v') :: delItem k r

/-- `d.pop(k, None)`: the value (or none) and the remaining items -/
def pop (k : Key) (l : List (Key × α)) : Option α × List (Key × α) := (lookup k l, delItem k l)

/-- `{k: v for k, v in ps}` = `dict(ps)`: position of the first occurrence of a key, value of
    the last -/
def ofPairs (ps : List (Key × α)) : List (Key × α) :=
  ps.foldl (fun acc kv => setItem kv.1 kv.2 acc) []

end Assoc

/-! ### the heap -/

structure Heap where
  /-- dictionaries: insertion-ordered association lists (distinct keys) -/
  dicts : Loc → List (Key × Val)
  /-- lists of atoms -/
  lists : Loc → List Nat
  /-- every location `≥ next` is unused; both kinds share the counter -/
  next : Loc
  /-- allocated by the library: the caller holds no reference to it -/
  priv : Loc → Bool
  /-- kind of an allocated location (`true`: dictionary, `false`: list) -/
  isDict : Loc → Bool
  /-- the `_data` location of each `ImmutableDict` built so far; the index is the object's identity -/
  frozen : List Loc

def init : Heap := ⟨fun _ => [], fun _ => [], 0, fun _ => false, fun _ => false, []⟩

namespace Heap

/-- a fresh dictionary at `h.next` -/
def allocDict (h : Heap) (its : List (Key × Val)) (p : Bool) : Heap :=
  { h with
    dicts := fun x => if x = h.next then its else h.dicts x
    next := h.next + 1
    priv := fun x => if x = h.next then p else h.priv x
    isDict := fun x => if x = h.next then true else h.isDict x }

/-- a fresh list at `h.next` -/
def allocList (h : Heap) (xs : List Nat) (p : Bool) : Heap :=
  { h with
    lists := fun x => if x = h.next then xs else h.lists x
    next := h.next + 1
    priv := fun x => if x = h.next then p else h.priv x
    isDict := fun x => if x = h.next then false else h.isDict x }

def setDict (h : Heap) (d : Loc) (its : List (Key × Val)) : Heap :=
  { h with dicts := fun x => if x = d then its else h.dicts x }

def setList (h : Heap) (l : Loc) (xs : List Nat) : Heap :=
  { h with lists := fun x => if x = l then xs else h.lists x }

/-- a new `ImmutableDict` whose `_data` is the dictionary at `d` -/
def record (h : Heap) (d : Loc) : Heap := { h with frozen := h.frozen ++ [d] }

/-- a dictionary the caller may name -/
def callerDict (h : Heap) (d : Loc) : Bool := decide (d < h.next) && !h.priv d && h.isDict d

/-- a list the caller may name -/
def callerList (h : Heap) (l : Loc) : Bool := decide (l < h.next) && !h.priv l && !h.isDict l

end Heap

/-! ### resolution and views -/

def resolveVal (ls : Loc → List Nat) : Val → RVal
  | .atom n => .atom n
  | .listRef l => .list (ls l)

/-- the items with every list reference replaced by the list's present content -/
def resolve (ls : Loc → List Nat) (its : List (Key × Val)) : List (Key × RVal) :=
  its.map (fun kv => (kv.1, resolveVal ls kv.2))

/-- the fully resolved items of frozen object `i`, in insertion order: what `.data`,
    `dict(self)`, `to_dict`, `==` and `hash` are computed from -/
def view (h : Heap) (i : Nat) : Option (List (Key × RVal)) :=
  (h.frozen[i]?).map (fun d => resolve h.lists (h.dicts d))

/-- the views of all frozen objects -/
def views (h : Heap) : List (List (Key × RVal)) :=
  h.frozen.map (fun d => resolve h.lists (h.dicts d))

/-! ### copying -/

/-- copy the items: every `listRef l` becomes a reference to a fresh PRIVATE list holding the
    elements `src l` (the list contents at the moment the copy started).  Fresh per
    occurrence: Python's `deepcopy` memo would share the copies of one list referenced twice;
    the resolved `view` is the same either way, and no operation of the model can tell the
    difference (private lists are never written). -/
def copyItems (src : Loc → List Nat) (h : Heap) : List (Key × Val) → Heap × List (Key × Val)
  | [] => (h, [])
  | (k, .atom n) :: rest =>
      let r := copyItems src h rest
      (r.1, (k, .atom n) :: r.2)
  | (k, .listRef l) :: rest =>
      let r := copyItems src (h.allocList (src l) true) rest
      (r.1, (k, .listRef h.next) :: r.2)

/-- `copy.deepcopy(d)`: fresh private lists, then a fresh private dictionary -/
def deepCopyDict (h : Heap) (src : Loc) : Heap × Loc :=
  let r := copyItems h.lists h (h.dicts src)
  (r.1.allocDict r.2 true, r.1.next)

/-- `dict(d)`: a fresh private dictionary with the same items (inner lists shared) -/
def shallowCopyDict (h : Heap) (src : Loc) : Heap × Loc :=
  (h.allocDict (h.dicts src) true, h.next)

/-- the copying discipline of routes 1 and 3 and of `copy_pop` -/
inductive Discipline where
  | deep      -- the code as it is
  | shallow   -- top-level dictionary copied, inner lists shared
  | alias     -- no copy at all
  deriving DecidableEq, Repr

def copyDict (disc : Discipline) (h : Heap) (src : Loc) : Heap × Loc :=
  match disc with
  | .deep => deepCopyDict h src
  | .shallow => shallowCopyDict h src
  | .alias => (h, src)

/-! ### operations -/

inductive Op where
  -- the caller, on ITS containers
  | newDict (items : List (Key × Val))
  | newList (xs : List Nat)
  | dictSet (d : Loc) (k : Key) (v : Val)
  | dictDel (d : Loc) (k : Key)
  | dictClear (d : Loc)
  | listAppend (l : Loc) (n : Nat)
  | listSetAll (l : Loc) (xs : List Nat)
  -- the library
  | fromDict (src : Loc)
  | fromFrozen (i : Nat)
  | fromPairs (ps : List (Key × Val))
  | copyPop (i : Nat) (k : Key)
  | lookup (i : Nat) (k : Key)
  deriving DecidableEq, Repr

inductive Out where
  | unit
  | loc (l : Loc)
  | obj (i : Nat)
  | popped (i : Nat) (v : Option RVal)
  | value (v : Option RVal)
  | invalid
  deriving DecidableEq, Repr

/-- one operation under a copying discipline.  List references inside the items given by the
    caller (`newDict`, `dictSet`, `fromPairs`) are taken as given. -/
def stepD (disc : Discipline) (h : Heap) : Op → Heap × Out
  | .newDict items => (h.allocDict (ofPairs items) false, .loc h.next)
  | .newList xs => (h.allocList xs false, .loc h.next)
  | .dictSet d k v =>
      if h.callerDict d then (h.setDict d (setItem k v (h.dicts d)), .unit) else (h, .invalid)
  | .dictDel d k =>
      if h.callerDict d then (h.setDict d (delItem k (h.dicts d)), .unit) else (h, .invalid)
  | .dictClear d =>
      if h.callerDict d then (h.setDict d [], .unit) else (h, .invalid)
  | .listAppend l n =>
      if h.callerList l then (h.setList l (h.lists l ++ [n]), .unit) else (h, .invalid)
  | .listSetAll l xs =>
      if h.callerList l then (h.setList l xs, .unit) else (h, .invalid)
  | .fromDict src =>
      -- route 1: `copy.deepcopy(dict(data))`
      if decide (src < h.next) && h.isDict src then
        let r := copyDict disc h src
        (r.1.record r.2, .obj h.frozen.length)
      else (h, .invalid)
  | .fromFrozen i =>
      -- route 2: shares the private dictionary
      match h.frozen[i]? with
      | some d => (h.record d, .obj h.frozen.length)
      | none => (h, .invalid)
  | .fromPairs ps =>
      -- route 3: `{k: v for k, v in data}` (a temporary the caller never sees), then deep copy
      let r := copyDict disc (h.allocDict (ofPairs ps) true) h.next
      (r.1.record r.2, .obj h.frozen.length)
  | .copyPop i k =>
      match h.frozen[i]? with
      | none => (h, .invalid)
      | some d =>
        -- `new_items = copy.deepcopy(self._data)`
        let r1 := copyDict disc h d
        -- `popped_value = new_items.pop(popped_key, None)`
        let popped := (lookup k (r1.1.dicts r1.2)).map (resolveVal r1.1.lists)
        let h2 := r1.1.setDict r1.2 (delItem k (r1.1.dicts r1.2))
        -- `ImmutableDict(new_items)`: route 1 again
        let r2 := copyDict disc h2 r1.2
        (r2.1.record r2.2, .popped h.frozen.length popped)
  | .lookup i k =>
      match h.frozen[i]? with
      | none => (h, .invalid)
      | some d => (h, .value ((lookup k (h.dicts d)).map (resolveVal h.lists)))

def runD (disc : Discipline) (h : Heap) (ops : List Op) : Heap :=
  ops.foldl (fun h op => (stepD disc h op).1) h

/-- the code as it is: deep copies everywhere -/
abbrev step (h : Heap) (op : Op) : Heap × Out := stepD .deep h op

abbrev run (h : Heap) (ops : List Op) : Heap := runD .deep h ops

/-- outputs of a history, and the views of all frozen objects after each operation (driver) -/
def traceD (disc : Discipline) (h : Heap) : List Op → List (Out × List (List (Key × RVal)))
  | [] => []
  | op :: ops =>
      let r := stepD disc h op
      (r.2, views r.1) :: traceD disc r.1 ops

end Swh.Frozen
