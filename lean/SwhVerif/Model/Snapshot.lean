import SwhVerif.Base.Bytes
/-! Model of `git_objects.snapshot_git_object` and an independent decoder (C05). -/
namespace Swh

inductive SnpKind where
  | content | directory | revision | release | snapshot
  deriving DecidableEq, Repr

inductive BranchTarget where
  | dangling
  | alias (target : Bytes)
  | obj (kind : SnpKind) (target : Bytes)
  deriving DecidableEq, Repr

abbrev Branch := Bytes × BranchTarget

def SnpKind.bytes : SnpKind → Bytes
  | .content => asc ['c','o','n','t','e','n','t']
  | .directory => asc ['d','i','r','e','c','t','o','r','y']
  | .revision => asc ['r','e','v','i','s','i','o','n']
  | .release => asc ['r','e','l','e','a','s','e']
  | .snapshot => asc ['s','n','a','p','s','h','o','t']

def aliasB : Bytes := asc ['a','l','i','a','s']
def danglingB : Bytes := asc ['d','a','n','g','l','i','n','g']

def BranchTarget.typeBytes : BranchTarget → Bytes
  | .dangling => danglingB
  | .alias _ => aliasB
  | .obj k _ => k.bytes

def BranchTarget.idBytes : BranchTarget → Bytes
  | .dangling => []
  | .alias t => t
  | .obj _ t => t

/-- `target_type, b" ", name, b"\0", b"%d:" % len(target_id), target_id` -/
def branchBytes (b : Branch) : Bytes :=
  b.2.typeBytes ++ bSP :: (b.1 ++ bNUL :: (dec b.2.idBytes.length ++ bColon :: b.2.idBytes))

/-- `sorted(snapshot.branches.items())` (names are distinct: dict keys) -/
def sortBranches (bs : List Branch) : List Branch := sortByKey (fun b => b.1) bs

def snapshotBody (bs : List Branch) : Bytes := ((sortBranches bs).map branchBytes).flatten

def snapshotTy : Bytes := asc ['s','n','a','p','s','h','o','t']

/-- the `unresolved` list: aliases (in name order) whose target is not a branch name or is
    their own name -/
def unresolved (bs : List Branch) : List (Bytes × Bytes) :=
  (sortBranches bs).filterMap (fun b =>
    match b.2 with
    | .alias t => if !(bs.any (fun c => c.1 == t)) || t == b.1 then some (b.1, t) else none
    | _ => none)

/-- `snapshot_git_object(snapshot, ignore_unresolved=ignore)`: error = ValueError carrying the list -/
def snapshotManifest (bs : List Branch) (ignore : Bool) : Except (List (Bytes × Bytes)) Bytes :=
  let u := unresolved bs
  if !u.isEmpty && !ignore then .error u
  else .ok (gitObject snapshotTy (snapshotBody bs))

/-- what `Snapshot.compute_hash` feeds to SHA-1 (`ignore_unresolved=True`): never fails -/
def snapshotIdManifest (bs : List Branch) : Bytes := gitObject snapshotTy (snapshotBody bs)

def Branch.triple (b : Branch) : Bytes × Bytes × Bytes := (b.2.typeBytes, b.1, b.2.idBytes)

/-- Independent decoder of a snapshot manifest body: `(kind, name, target)*`. -/
def decodeSnapshotAux : Nat → Bytes → Option (List (Bytes × Bytes × Bytes))
  | 0, _ => none
  | _ + 1, [] => some []
  | f + 1, b :: bs =>
    match splitFirst bSP (b :: bs) with
    | none => none
    | some (kind, r) =>
      match splitFirst bNUL r with
      | none => none
      | some (name, r2) =>
        match splitFirst bColon r2 with
        | none => none
        | some (ld, r3) =>
          match parseDecCanon ld with
          | none => none
          | some n =>
            if r3.length < n then none
            else match decodeSnapshotAux f (r3.drop n) with
              | none => none
              | some rest => some ((kind, name, r3.take n) :: rest)

def decodeSnapshot (bs : Bytes) : Option (List (Bytes × Bytes × Bytes)) :=
  decodeSnapshotAux (bs.length + 1) bs

inductive KindTag where
  | dangling | alias | obj (k : SnpKind)
  deriving DecidableEq, Repr

def kindTagOfBytes (k : Bytes) : Option KindTag :=
  if k = danglingB then some .dangling
  else if k = aliasB then some .alias
  else if k = SnpKind.content.bytes then some (.obj .content)
  else if k = SnpKind.directory.bytes then some (.obj .directory)
  else if k = SnpKind.revision.bytes then some (.obj .revision)
  else if k = SnpKind.release.bytes then some (.obj .release)
  else if k = SnpKind.snapshot.bytes then some (.obj .snapshot)
  else none

def BranchTarget.tag : BranchTarget → KindTag
  | .dangling => .dangling
  | .alias _ => .alias
  | .obj k _ => .obj k

/-- rebuild a branch from a decoded triple (fails on an unknown kind or a non-empty dangling target) -/
def branchOfTriple (t : Bytes × Bytes × Bytes) : Option Branch :=
  match kindTagOfBytes t.1 with
  | none => none
  | some .dangling => if t.2.2 = [] then some (t.2.1, .dangling) else none
  | some .alias => some (t.2.1, .alias t.2.2)
  | some (.obj k) => some (t.2.1, .obj k t.2.2)

end Swh
