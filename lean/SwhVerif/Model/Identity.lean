import SwhVerif.Base.Bytes
import SwhVerif.Base.Err
import SwhVerif.Gen.Tables
/-!
  Model of `BaseHashableModel` / `HashableObjectWithManifest` (C07): how an id is assigned at
  construction, recomputed, checked and re-derived by `evolve`, parameterised by the hash `H`
  and by the manifest function of the object kind.
-/
namespace Swh.Identity
open Swh

/-- an identified object: its hashed attributes, the optional verbatim manifest, and its id -/
structure Obj (A : Type) where
  attrs : A
  raw : Option Bytes
  id : Bytes

variable {A : Type} (H : Bytes → Bytes) (manifestOf : A → Bytes)

/-- `_compute_hash_from_attributes` -/
def hashFromAttrs (o : Obj A) : Bytes := H (manifestOf o.attrs)

/-- `compute_hash`: the raw manifest wins when present -/
def computeHash (o : Obj A) : Bytes :=
  match o.raw with
  | none => hashFromAttrs H manifestOf o
  | some r => H r

/-- `__attrs_post_init__`: `if not self.id: self.id = self.compute_hash()` -/
def mk (attrs : A) (raw : Option Bytes) (explicitId : Bytes) : Obj A :=
  let o : Obj A := ⟨attrs, raw, explicitId⟩
  if explicitId.isEmpty then { o with id := computeHash H manifestOf o } else o

/-- `check()` after the attribute validators passed: `ValueError` unless the id is the recomputed
    one, and — for kinds with a raw manifest — unless the raw manifest is actually needed -/
def check (o : Obj A) : Except ErrKind Unit :=
  if o.id ≠ computeHash H manifestOf o then .error .valueError
  else if o.raw.isSome ∧ o.id = hashFromAttrs H manifestOf o then .error .valueError
  else .ok ()

/-- `evolve(**changes)`: rebuild with the old id, recompute, store the new id -/
def evolve (o : Obj A) (f : A → A) (rawChange : Option (Option Bytes)) : Obj A :=
  let o' : Obj A := ⟨f o.attrs, rawChange.getD o.raw, o.id⟩
  { o' with id := computeHash H manifestOf o' }

/-- the decision logic of `check` on digests (what the driver runs: the harness supplies the
    SHA-1 values) -/
def checkLogic (hAttr : Bytes) (hRaw : Option Bytes) (id : Bytes) : Except ErrKind Unit :=
  if id ≠ hRaw.getD hAttr then .error .valueError
  else if hRaw.isSome ∧ id = hAttr then .error .valueError
  else .ok ()

/-- which digest becomes the id of a freshly built object -/
def idLogic (hAttr : Bytes) (hRaw : Option Bytes) (explicitId : Bytes) : Bytes :=
  if explicitId.isEmpty then hRaw.getD hAttr else explicitId

/-- identified kinds and the SWHID tag their `swhid()` prints (regenerated table) -/
def swhidTag (kind : String) : Option String :=
  (Gen.swhidTagOf.find? (·.1 = kind)).map (·.2)

/-- an origin's manifest is its URL, as UTF-8, with no git header -/
def originManifest (urlUtf8 : Bytes) : Bytes := urlUtf8

end Swh.Identity
