import SwhVerif.Gen.Tables
/-!
  Model of the decision logic of `swh identify` (cli.py: `identify`, `identify_object`) as a
  total function on the finite configuration space, with the file-system predicates
  (`isfile`, `isdir`, `islink`) as functions of the argument kind (C18).
-/
namespace Swh.Cli

inductive ArgKind where
  | file | dir | linkFile | linkDir | stdin | url | gitRepo
  deriving DecidableEq, Repr

inductive TypeOpt where
  | auto | content | directory | origin | snapshot
  deriving DecidableEq, Repr

/-- `--verify`: absent, a core SWHID equal to the computed one, a different one, or a value that
is not a core SWHID at all (rejected by the option's parameter type before the command runs) -/
inductive VerifyOpt where
  | absent | matching | nonMatching | malformed
  deriving DecidableEq, Repr

structure Cfg where
  kind : ArgKind
  type : TypeOpt
  deref : Bool
  filename : Bool
  recursive : Bool
  verify : VerifyOpt
  exclude : Bool
  deriving DecidableEq, Repr

/-- which object's SWHID is printed -/
inductive Designated where
  | contentOfFile          -- bytes of the regular file (the link's target when followed)
  | contentOfLinkText      -- the symbolic link itself: a content whose bytes are the link text
  | contentOfStdin
  | directory              -- the directory (the link's target when followed), exclusions applied
  | origin
  | snapshot
  deriving DecidableEq, Repr

inductive Outcome where
  | print (d : Designated) (perNode : Bool) (withName : Bool)
  | usageError
  | exit0 (d : Designated)
  | exit1 (d : Designated)
  | crash
  | unspecified            -- type does not match the argument: outside the property
  deriving DecidableEq, Repr

def isfile : ArgKind → Bool      -- os.path.isfile (follows links)
  | .file | .linkFile => true
  | _ => false

def isdir : ArgKind → Bool       -- os.path.isdir (follows links)
  | .dir | .linkDir | .gitRepo => true
  | _ => false

def islink : ArgKind → Bool
  | .linkFile | .linkDir => true
  | _ => false

/-- result of `identify_object` -/
inductive ObjRes where
  | ok (d : Designated)
  | badParameter
  | crash
  | unspecified
  deriving DecidableEq, Repr

/-- `identify_object(obj_type, follow_symlinks, exclude_patterns, obj)` (with the repairs:
    a link that is not followed is a content; `realpath` keeps bytes; `os.fsencode`) -/
def identifyObject (c : Cfg) : ObjRes :=
  let objType : Option TypeOpt :=
    match c.type with
    | .auto =>
      if c.kind = .stdin || isfile c.kind || (!c.deref && islink c.kind) then some .content
      else if isdir c.kind then some .directory
      else if c.kind = .url then some .origin
      else none
    | t => some t
  match objType with
  | none => .badParameter
  | some t =>
    if c.kind = .stdin then
      (if t = .content then .ok .contentOfStdin else .unspecified)
    else
      let followed := c.deref && islink c.kind
      match t with
      | .content =>
        match c.kind with
        | .file => .ok .contentOfFile
        | .linkFile => if followed then .ok .contentOfFile else .ok .contentOfLinkText
        | .linkDir => if followed then .unspecified else .ok .contentOfLinkText
        | _ => .unspecified
      | .directory =>
        match c.kind with
        | .dir | .gitRepo => .ok .directory
        | .linkDir => if followed then .ok .directory else .unspecified
        | _ => .unspecified
      | .origin => if c.kind = .url then .ok .origin else .unspecified
      | .snapshot => if c.kind = .gitRepo then .ok .snapshot else .unspecified
      | .auto => .unspecified

/-- the `identify` command for a single OBJECT argument -/
def identify (c : Cfg) : Outcome :=
  let recursive := c.recursive && isdir c.kind      -- "recursive option disabled, input is not a directory"
  if c.verify = .malformed then .usageError         -- CoreSWHIDParamType.convert → self.fail
  else if recursive then
    if c.verify ≠ .absent then .usageError
    else if c.type ≠ .auto ∧ c.type ≠ .directory then .usageError
    else .print .directory true c.filename
  else
    match identifyObject c with
    | .badParameter => .usageError
    | .crash => .crash
    | .unspecified => .unspecified
    | .ok d =>
      match c.verify with
      | .absent => .print d false c.filename
      | .matching => .exit0 d
      | .nonMatching => .exit1 d
      | .malformed => .usageError

/-! ### the specification, written from the statement and the command's help text -/

/-- the object designated by the argument: the link's target iff dereferencing was requested -/
def designated (k : ArgKind) (deref : Bool) (t : TypeOpt) : Option Designated :=
  match k with
  | .file => some .contentOfFile
  | .dir => some .directory
  | .linkFile => some (if deref then .contentOfFile else .contentOfLinkText)
  | .linkDir => some (if deref then .directory else .contentOfLinkText)
  | .stdin => some .contentOfStdin
  | .url => some .origin
  | .gitRepo => some (if t = .snapshot then .snapshot else .directory)

def typeOf : Designated → TypeOpt
  | .contentOfFile | .contentOfLinkText | .contentOfStdin => .content
  | .directory => .directory
  | .origin => .origin
  | .snapshot => .snapshot

/-- in scope: type automatic or matching the designated object.  A URL cannot be combined with
    a *matching* `--verify`: the option only takes core SWHIDs and an origin's is not one, so
    that configuration cannot be written on a command line at all. -/
def inScope (c : Cfg) : Bool :=
  match designated c.kind c.deref c.type with
  | none => false
  | some d => (c.type = .auto || c.type = typeOf d) && !(c.kind = .url && c.verify = .matching)

/-- is the argument a directory for the purpose of `--recursive` (which looks through links)? -/
def recursiveApplies (c : Cfg) : Bool := c.recursive && isdir c.kind

def expected (c : Cfg) : Outcome :=
  match designated c.kind c.deref c.type with
  | none => .unspecified
  | some d =>
    -- `--verify` takes a core SWHID: anything else is a usage error
    if c.verify = .malformed then .usageError
    else if recursiveApplies c then
      -- documented as unsupported: verification of a recursive identification; recursion for
      -- a type other than directory
      if c.verify ≠ .absent then .usageError
      else if c.type ≠ .auto ∧ c.type ≠ .directory then .usageError
      else .print .directory true c.filename
    else
      match c.verify with
      | .absent => .print d false c.filename
      | .matching => .exit0 d
      | .nonMatching => .exit1 d
      | .malformed => .usageError

/-! ### several OBJECT arguments -/

/-- one command line: the options are shared, the OBJECT arguments differ in kind -/
structure Cmd where
  kinds : List ArgKind
  type : TypeOpt
  deref : Bool
  filename : Bool
  recursive : Bool
  verify : VerifyOpt
  exclude : Bool
  deriving DecidableEq, Repr

def Cmd.cfg (c : Cmd) (k : ArgKind) (recursive : Bool) : Cfg :=
  ⟨k, c.type, c.deref, c.filename, recursive, c.verify, c.exclude⟩

/-- output stops at the first usage error (it is raised after the earlier lines were printed) -/
def takeUntilError : List Outcome → List Outcome
  | [] => []
  | .usageError :: _ => [.usageError]
  | o :: t => o :: takeUntilError t

/-- `identify` with any number of OBJECT arguments (click requires at least one):
```
if verify and len(objects) != 1: raise BadParameter("verification requires a single object")
if recursive and not os.path.isdir(objects[0]): recursive = False
if recursive: … objects[0] only …
else: for obj in objects: echo(identify_object(obj))
``` -/
def identifyMany (c : Cmd) : List Outcome :=
  match c.kinds with
  | [] => [.usageError]
  | k :: rest =>
    if c.verify = .malformed then [.usageError]
    else if c.verify ≠ .absent ∧ rest ≠ [] then [.usageError]
    else if c.recursive && isdir k then [identify (c.cfg k true)]
    else takeUntilError ((k :: rest).map (fun k' => identify (c.cfg k' false)))

end Swh.Cli
