import SwhVerif.Model.Directory
/-!
Model of `Directory.from_possibly_duplicated_entries` (swh/model/model.py), default call
(`id=b""`, `raw_manifest=None`), REPAIRED version: a losing entry is renamed to
`name + b"_" + hexlify(target)[0:10]`, and, while that name is already taken (by an original
entry or by an earlier replacement), to `prefix + b"_%d" % counter` for `counter = 1, 2, …`.

Executable, total, core Lean only.
-/
namespace Swh
namespace Dedup

def bUnderscore : Byte := 0x5f

/-- importance order of the repair heuristic: `dir_entry_types = ("rev", "dir", "file")` -/
def rank : EType → Nat
  | .rev => 0
  | .dir => 1
  | .file => 2

/-- `Directory.check_entries` (the `entries` validator): walks the entries with a `seen` set and
    raises (`true`) on the first name that is already in it. -/
def validatorRaises : List Bytes → List Entry → Bool
  | _, [] => false
  | seen, e :: es => if e.name ∈ seen then true else validatorRaises (e.name :: seen) es

/-- keys of `entries_by_name` in dict (= first insertion) order -/
def firstNames (es : List Entry) : List Bytes :=
  es.foldl (fun keys e => if e.name ∈ keys then keys else keys ++ [e.name]) []

/-- `entries_by_name[x][t]`: the entries named `x` of type `t`, in input order -/
def bucket (es : List Entry) (x : Bytes) (t : EType) : List Entry :=
  es.filter (fun e => e.name = x && e.type = t)

/-- the order in which the entries filed under name `x` are visited:
    `for type_ in ("rev", "dir", "file"): for entry in entry_lists[type_]` -/
def group (es : List Entry) (x : Bytes) : List Entry :=
  bucket es x .rev ++ bucket es x .dir ++ bucket es x .file

/-- `picked_winner` made explicit: the first visited entry of a group is the winner (`true`) -/
def tagGroup : List Entry → List (Bool × Entry)
  | [] => []
  | w :: rest => (true, w) :: rest.map (fun e => (false, e))

/-- all entries in visiting order, each tagged "is the winner of its name" -/
def visitOrder (es : List Entry) : List (Bool × Entry) :=
  (firstNames es).flatMap (fun x => tagGroup (group es x))

/-- `entry.name + b"_" + hash_to_bytehex(entry.target)[0:10]` -/
def renamePrefix (e : Entry) : Bytes :=
  e.name ++ bUnderscore :: (hexLower e.target).take 10

/-- the `counter`-th candidate: `prefix`, then `prefix + b"_%d" % counter` -/
def candidate (pre : Bytes) (counter : Nat) : Bytes :=
  if counter = 0 then pre else pre ++ bUnderscore :: dec counter

/-- `while new_name in used_names: counter += 1; …`, with fuel (never exhausted, see
    `Swh.Dedup.freshName_not_mem`) -/
def findFresh (used : List Bytes) (pre : Bytes) : Nat → Nat → Bytes
  | 0, counter => candidate pre counter
  | fuel + 1, counter =>
    if candidate pre counter ∈ used then findFresh used pre fuel (counter + 1)
    else candidate pre counter

/-- the first candidate not in `used`; `used.length + 1` candidates always contain one -/
def freshName (used : List Bytes) (pre : Bytes) : Bytes :=
  findFresh used pre (used.length + 1) 0

/-- step 3: winners are kept, the others get a fresh name, which becomes used.
    Returns `(original, as appended to deduplicated_entries)` in output order. -/
def renameLoop : List Bytes → List (Bool × Entry) → List (Entry × Entry)
  | _, [] => []
  | used, (true, e) :: rest => (e, e) :: renameLoop used rest
  | used, (false, e) :: rest =>
    let newName := freshName used (renamePrefix e)
    (e, { e with name := newName }) :: renameLoop (newName :: used) rest

end Dedup

/-- result of `from_possibly_duplicated_entries`: `(flag, Directory(entries, raw_manifest))`,
    plus the ghost `pairs` = (original entry, entry as output), in output order -/
structure Repaired where
  flag : Bool
  entries : List Entry
  rawManifest : Option Bytes
  pairs : List (Entry × Entry)
  deriving DecidableEq, Repr

/-- `Directory.from_possibly_duplicated_entries(entries=es)` -/
def fromPossiblyDuplicated (es : List Entry) : Repaired :=
  if Dedup.validatorRaises [] es then
    -- `Directory(entries=entries)` raised ValueError
    let pairs := Dedup.renameLoop (es.map Entry.name) (Dedup.visitOrder es)
    { flag := true
      entries := pairs.map Prod.snd
      rawManifest := some (dirManifest es)
      pairs := pairs }
  else
    { flag := false, entries := es, rawManifest := none, pairs := es.map (fun e => (e, e)) }

/-- `HashableObjectWithManifest.compute_hash` of the returned directory (`id=b""` ⇒ computed):
    the hash of `raw_manifest` when there is one, else of the manifest of the entries -/
def Repaired.id (H : Bytes → Bytes) (r : Repaired) : Bytes :=
  match r.rawManifest with
  | some raw => H raw
  | none => H (dirManifest r.entries)

/-- `HashableObjectWithManifest.check` for a directory with id `id`:
    `id == compute_hash()` and not (`raw_manifest is not None and
    id == _compute_hash_from_attributes()`) -/
def Repaired.checkOk (H : Bytes → Bytes) (r : Repaired) (id : Bytes) : Prop :=
  id = r.id H ∧ (r.rawManifest = none ∨ id ≠ H (dirManifest r.entries))

end Swh
