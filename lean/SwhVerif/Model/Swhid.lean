import SwhVerif.Base.Bytes
import SwhVerif.Base.Err
import SwhVerif.Gen.Tables
/-!
  Executable model of `swh/model/swhids.py` : printing and parsing of the three SWHID classes
  (`CoreSWHID`, `ExtendedSWHID`, `QualifiedSWHID`), together with the pieces of CPython they rest
  on (`re` `\s`, `urllib.parse.unquote / unquote_to_bytes / quote_from_bytes / quote`,
  `bytes.decode("utf-8", "replace")`, `int(str)`).

  A Python `str` is a `List Char` (lone surrogates are outside the model).
  Exceptions are modelled by `Except ErrKind`, the `try/except ValueError` wrappers of the code are
  explicit (`wrapValueError`), so that "never any other exception" is a theorem (`C09.parse_clean`).

  Two behaviours are those of the REPAIRED library (see DESIGN §7, F2/F3), not of the shipped code:
  * `lines` accepts only `digits` / `digits-digits` with ASCII digits (`pyInt`);
  * `escapeOrigin` percent-encodes every `\s` character (`quoteSpace`).
-/
namespace Swh

abbrev Str := List Char

/-! ### generic list helpers (Python `split`, prefix stripping) -/

/-- `xs.split(d)` : always at least one piece -/
def splitOnL {α} [DecidableEq α] (d : α) : List α → List (List α)
  | [] => [[]]
  | b :: bs =>
    let r := splitOnL d bs
    if b = d then [] :: r else (b :: r.headD []) :: r.tail

/-- `xs.split(d, 1)` when `d` occurs : `(before, after)` the first occurrence -/
def splitFirstL {α} [DecidableEq α] (d : α) : List α → Option (List α × List α)
  | [] => none
  | b :: bs =>
    if b = d then some ([], bs)
    else match splitFirstL d bs with
      | some (p, r) => some (b :: p, r)
      | none => none

def stripPrefix {α} [DecidableEq α] : List α → List α → Option (List α)
  | [], s => some s
  | _ :: _, [] => none
  | p :: ps, c :: cs => if p = c then stripPrefix ps cs else none

/-! ### characters -/

/-- code points matched by `\s` of Python's `re` on `str` patterns (29 code points) -/
def isPySpace (c : Char) : Bool :=
  let n := c.toNat
  (0x09 ≤ n && n ≤ 0x0D) || (0x1C ≤ n && n ≤ 0x20) || n == 0x85 || n == 0xA0 || n == 0x1680 ||
  (0x2000 ≤ n && n ≤ 0x200A) || n == 0x2028 || n == 0x2029 || n == 0x202F || n == 0x205F ||
  n == 0x3000

def isAsciiC (c : Char) : Bool := c.toNat < 128
def isDigitC (c : Char) : Bool := 48 ≤ c.toNat && c.toNat ≤ 57
def isLowerHexC (c : Char) : Bool :=
  (48 ≤ c.toNat && c.toNat ≤ 57) || (97 ≤ c.toNat && c.toNat ≤ 102)

/-- `chr(b)` for a byte -/
def byteChar (b : Byte) : Char := Char.ofNat b.toNat
/-- bytes of an ASCII string (only used on strings already known to be ASCII) -/
def asciiBytes (s : Str) : Bytes := s.map (fun c => UInt8.ofNat c.toNat)
def bytesStr (b : Bytes) : Str := b.map byteChar

/-! ### UTF-8 -/

/-- `c.encode("utf-8")` -/
def utf8EncChar (c : Char) : Bytes :=
  let n := c.toNat
  if n < 0x80 then [UInt8.ofNat n]
  else if n < 0x800 then [UInt8.ofNat (0xC0 + n / 64), UInt8.ofNat (0x80 + n % 64)]
  else if n < 0x10000 then
    [UInt8.ofNat (0xE0 + n / 4096), UInt8.ofNat (0x80 + n / 64 % 64), UInt8.ofNat (0x80 + n % 64)]
  else
    [UInt8.ofNat (0xF0 + n / 262144), UInt8.ofNat (0x80 + n / 4096 % 64),
     UInt8.ofNat (0x80 + n / 64 % 64), UInt8.ofNat (0x80 + n % 64)]

/-- `s.encode("utf-8")` -/
def utf8Enc (s : Str) : Bytes := s.flatMap utf8EncChar

/-- decoder state: `need` continuation bytes still expected (0 = between characters), code point
    bits accumulated so far, and the admissible range of the next byte -/
structure U8State where
  need : Nat := 0
  cp : Nat := 0
  lo : Nat := 0x80
  hi : Nat := 0xBF
deriving Repr, DecidableEq

def repChar : Char := Char.ofNat 0xFFFD

/-- a byte met between characters -/
def u8Start (b : Nat) : List Char × U8State :=
  if b < 0x80 then ([Char.ofNat b], {})
  else if b < 0xC2 then ([repChar], {})
  else if b < 0xE0 then ([], { need := 1, cp := b - 0xC0 })
  else if b < 0xF0 then
    ([], { need := 2, cp := b - 0xE0,
           lo := if b = 0xE0 then 0xA0 else 0x80, hi := if b = 0xED then 0x9F else 0xBF })
  else if b < 0xF5 then
    ([], { need := 3, cp := b - 0xF0,
           lo := if b = 0xF0 then 0x90 else 0x80, hi := if b = 0xF4 then 0x8F else 0xBF })
  else ([repChar], {})

def u8Step (st : U8State) (b : Nat) : List Char × U8State :=
  if st.need = 0 then u8Start b
  else if st.lo ≤ b ∧ b ≤ st.hi then
    let cp := st.cp * 64 + (b - 0x80)
    if st.need = 1 then ([Char.ofNat cp], {}) else ([], { need := st.need - 1, cp := cp })
  else
    -- the maximal valid prefix seen so far becomes one U+FFFD, `b` is looked at afresh
    let r := u8Start b
    (repChar :: r.1, r.2)

def u8Go (st : U8State) : Bytes → List Char
  | [] => if st.need = 0 then [] else [repChar]
  | b :: bs => let r := u8Step st b.toNat; r.1 ++ u8Go r.2 bs

/-- `bs.decode("utf-8", "replace")` (CPython: one U+FFFD per maximal ill-formed subsequence) -/
def utf8Dec (bs : Bytes) : Str := u8Go {} bs

/-! ### urllib.parse -/

def hexVal (b : Byte) : Option Nat :=
  let n := b.toNat
  if 48 ≤ n && n ≤ 57 then some (n - 48)
  else if 65 ≤ n && n ≤ 70 then some (n - 55)
  else if 97 ≤ n && n ≤ 102 then some (n - 87)
  else none

def bPct : Byte := 0x25

/-- one item of `bits[1:]` in `_unquote_impl` -/
def unquotePiece (p : Bytes) : Bytes :=
  match p with
  | h1 :: h2 :: r =>
    match hexVal h1, hexVal h2 with
    | some x, some y => UInt8.ofNat (x * 16 + y) :: r
    | _, _ => bPct :: p
  | _ => bPct :: p

/-- `urllib.parse._unquote_impl` on bytes: split on `%`, keep the first piece, decode the others -/
def unquoteBytes (bs : Bytes) : Bytes :=
  let bits := splitOnL bPct bs
  bits.headD [] ++ bits.tail.flatMap unquotePiece

/-- `urllib.parse.unquote_to_bytes(str)` -/
def unquoteToBytes (s : Str) : Bytes := unquoteBytes (utf8Enc s)

/-- an ASCII run of `unquote`: `_unquote_impl(run).decode("utf-8", "replace")` -/
def flushRun (run : Str) : Str := utf8Dec (unquoteBytes (utf8Enc run))

/-- `_generate_unquoted_parts`: maximal ASCII runs (accumulated, reversed, in `acc`) are unquoted
    and decoded, everything else is copied -/
def unquoteRuns : Str → Str → Str
  | acc, [] => flushRun acc.reverse
  | acc, c :: cs =>
    if isAsciiC c then unquoteRuns (c :: acc) cs
    else flushRun acc.reverse ++ c :: unquoteRuns [] cs

/-- `urllib.parse.unquote(str)` (encoding utf-8, errors replace) -/
def pyUnquote (s : Str) : Str := if '%' ∈ s then unquoteRuns [] s else s

def isSafeByte (b : Byte) : Bool :=
  let n := b.toNat
  (65 ≤ n && n ≤ 90) || (97 ≤ n && n ≤ 122) || (48 ≤ n && n ≤ 57) ||
  n == 95 || n == 46 || n == 45 || n == 126 || n == 47

def hexUpperDigit (d : Nat) : Char := if d < 10 then Char.ofNat (48 + d) else Char.ofNat (55 + d)

def quoteByte (b : Byte) : Str :=
  if isSafeByte b then [byteChar b]
  else ['%', hexUpperDigit (b.toNat / 16), hexUpperDigit (b.toNat % 16)]

/-- `urllib.parse.quote_from_bytes(bs)` (safe = `/`) -/
def quoteFromBytes (bs : Bytes) : Str := bs.flatMap quoteByte

/-- `urllib.parse.quote(str)` -/
def pyQuote (s : Str) : Str := quoteFromBytes (utf8Enc s)

/-- `s.replace(d, r)` for a one-character `d` -/
def replaceChar (d : Char) (r : Str) (s : Str) : Str := s.flatMap (fun c => if c = d then r else [c])

/-- REPAIRED: `re.sub(r"\s", lambda m: urllib.parse.quote(m.group()), s)` -/
def quoteSpace (s : Str) : Str := s.flatMap (fun c => if isPySpace c then pyQuote [c] else [c])

/-- escaping of the origin in `QualifiedSWHID.qualifiers()` -/
def escapeOrigin (s : Str) : Str :=
  quoteSpace (replaceChar ';' ['%', '3', 'B'] (replaceChar '%' ['%', '2', '5'] s))

/-! ### int / str -/

/-- CPython `sys.get_int_max_str_digits()` default -/
def maxDigits : Nat := 4300

def withinLimit (lim : Option Nat) (n : Nat) : Bool :=
  match lim with
  | none => true
  | some m => n ≤ m

/-- REPAIRED strict `int(s)`: ASCII digits only, non-empty; `lim` is CPython's digit limit
    (`none`: no limit) -/
def pyInt (lim : Option Nat) (s : Str) : Except ErrKind Nat :=
  if s.all isDigitC && withinLimit lim s.length then
    match parseDec (asciiBytes s) with
    | some n => .ok n
    | none => .error .valueError
  else .error .valueError

/-- `str(n)` -/
def decStr (n : Nat) : Str := bytesStr (dec n)

/-! ### tables -/

def nsStr : Str := Gen.swhidNamespace.toList
def sepStr : Str := Gen.swhidSep.toList
def ctxtSepStr : Str := Gen.swhidCtxtSep.toList
/-- `str(SWHID_VERSION)` (core's fuel-based `Nat.toDigits`, so that closed terms evaluate) -/
def versionStr : Str := Nat.toDigits 10 Gen.swhidVersion
/-- `swh:1:` -/
def corePrefix : Str := nsStr ++ ':' :: versionStr ++ [':']
/-- values of `ObjectType` -/
def coreTags : List Str := Gen.coreTypes.map String.toList
/-- values of `ExtendedObjectType` -/
def extTags : List Str := Gen.extendedTypes.map String.toList
/-- alternatives of the `object_type` group of `SWHID_RE` (`EXTENDED_SWHID_TYPES`) -/
def reTags : List Str := Gen.reTypes.map String.toList
/-- `SWHID_QUALIFIERS` -/
def qualKeys : List Str := Gen.swhidQualifiers.map String.toList

def qkOrigin : Str := "origin".toList
def qkVisit : Str := "visit".toList
def qkAnchor : Str := "anchor".toList
def qkPath : Str := "path".toList
def qkLines : Str := "lines".toList
/-- keyword arguments of `QualifiedSWHID.__init__` that carry qualifiers -/
def fieldNames : List Str := [qkOrigin, qkVisit, qkAnchor, qkPath, qkLines]

def tSnp : Str := "snp".toList
def tRev : Str := "rev".toList
def tRel : Str := "rel".toList
def tDir : Str := "dir".toList
/-- `check_visit` -/
def visitTags : List Str := [tSnp]
/-- `check_anchor` -/
def anchorTags : List Str := [tDir, tRev, tRel, tSnp]

/-! ### values -/

inductive SwhidClass
  | core | extended | qualified
deriving DecidableEq, Repr

/-- `CoreSWHID` / `ExtendedSWHID`: the enum member is represented by its `.value` -/
structure BaseSwhid where
  objectType : Str
  objectId : Bytes
deriving DecidableEq, Repr

structure QualSwhid where
  objectType : Str
  objectId : Bytes
  origin : Option Str := none
  visit : Option BaseSwhid := none
  anchor : Option BaseSwhid := none
  path : Option Bytes := none
  lines : Option (Nat × Option Nat) := none
deriving DecidableEq, Repr

inductive Value
  | core (v : BaseSwhid)
  | extended (v : BaseSwhid)
  | qualified (v : QualSwhid)
deriving DecidableEq, Repr

def QualSwhid.base (q : QualSwhid) : BaseSwhid := ⟨q.objectType, q.objectId⟩
def QualSwhid.ofBase (b : BaseSwhid) : QualSwhid := { objectType := b.objectType, objectId := b.objectId }

def Value.cls : Value → SwhidClass
  | .core _ => .core
  | .extended _ => .extended
  | .qualified _ => .qualified

def Value.objectType : Value → Str
  | .core v => v.objectType
  | .extended v => v.objectType
  | .qualified v => v.objectType

def Value.objectId : Value → Bytes
  | .core v => v.objectId
  | .extended v => v.objectId
  | .qualified v => v.objectId

/-! ### printing -/

/-- `hash_to_hex` -/
def hexStrOf (id : Bytes) : Str := bytesStr (hexLower id)

/-- `_format_core_swhid` -/
def printBase (v : BaseSwhid) : Str := corePrefix ++ v.objectType ++ ':' :: hexStrOf v.objectId

/-- `"-".join(str(line) for line in self.lines if line is not None)` -/
def printLines : Nat × Option Nat → Str
  | (a, none) => decStr a
  | (a, some b) => decStr a ++ '-' :: decStr b

def optQual {α} (k : Str) (f : α → Str) : Option α → List (Str × Str)
  | none => []
  | some x => [(k, f x)]

/-- `QualifiedSWHID.qualifiers()`: the dict, in insertion order, `None` values removed.
    `if origin:` – the empty origin is left as it is (and still printed, as `;origin=`);
    `if self.visit` / `if self.anchor` / `if self.lines` are always true on non-`None` values
    (attrs instances and 2-tuples are truthy). -/
def qualifierList (v : QualSwhid) : List (Str × Str) :=
  optQual qkOrigin (fun o => if o.isEmpty then o else escapeOrigin o) v.origin ++
  optQual qkVisit printBase v.visit ++
  optQual qkAnchor printBase v.anchor ++
  optQual qkPath quoteFromBytes v.path ++
  optQual qkLines printLines v.lines

def renderQual (kv : Str × Str) : Str := ';' :: kv.1 ++ '=' :: kv.2

/-- `QualifiedSWHID.__str__` -/
def printQualified (v : QualSwhid) : Str :=
  printBase v.base ++ (qualifierList v).flatMap renderQual

def printValue : Value → Str
  | .core v => printBase v
  | .extended v => printBase v
  | .qualified v => printQualified v

/-! ### parsing -/

/-- `try: … except ValueError: raise ValidationError` -/
def wrapValueError {α} : Except ErrKind α → Except ErrKind α
  | .error .valueError => .error .validation
  | x => x

/-- what `SWHID_RE.fullmatch` captures: object_type, object_id, qualifiers -/
def matchTail (t : Str) (r : Str) : Option (Str × Str × Option Str) :=
  let h := r.take 40
  if h.length = 40 && h.all isLowerHexC then
    match r.drop 40 with
    | [] => some (t, h, none)
    | c :: q =>
      if c = ';' && !q.isEmpty && q.all (fun x => !isPySpace x) then some (t, h, some q) else none
  else none

/-- `SWHID_RE.fullmatch(s)`; alternatives of the type group are tried in order -/
def matchRe (s : Str) : Option (Str × Str × Option Str) :=
  match stripPrefix corePrefix s with
  | none => none
  | some r =>
    reTags.findSome? (fun t =>
      match stripPrefix (t ++ [':']) r with
      | none => none
      | some r2 => matchTail t r2)

/-- the qualifier loop of `_parse_swhid`; the dict is kept most-recent-first -/
def parseChunks : List Str → List (Str × Str) → Except ErrKind (List (Str × Str))
  | [], d => .ok d
  | c :: cs, d =>
    match splitFirstL '=' c with
    | none => .error .validation   -- unpacking fails with ValueError, re-raised as ValidationError
    | some (k, v) => parseChunks cs ((k, v) :: d)

/-- `d.get(k)` on the most-recent-first association list -/
def dictGet (d : List (Str × Str)) (k : Str) : Option Str :=
  match d with
  | [] => none
  | (k', v) :: rest => if k' = k then some v else dictGet rest k

structure Parts where
  objectType : Str
  objectId : Bytes
  qualifiers : List (Str × Str)

/-- `hash_to_bytes` = `bytes.fromhex` -/
def hashToBytes (h : Str) : Except ErrKind Bytes :=
  match unhexLower (asciiBytes h) with
  | some b => .ok b
  | none => .error .valueError

/-- `_parse_swhid` -/
def parseParts (s : Str) : Except ErrKind Parts :=
  match matchRe s with
  | none => .error .validation
  | some (t, h, q) =>
    (match q with
     | none => .ok []
     | some raw => parseChunks (splitOnL ';' raw) []) >>= fun d =>
    hashToBytes h >>= fun id =>
    .ok ⟨t, id, d⟩

/-- enum converter `ObjectType(t)` / `ExtendedObjectType(t)` -/
def objectTypeConv (tags : List Str) (t : Str) : Except ErrKind Str :=
  if t ∈ tags then .ok t else .error .valueError

/-- `check_object_id` -/
def checkObjectId (id : Bytes) : Except ErrKind Unit :=
  if id.length = 20 then .ok () else .error .validation

/-- `CoreSWHID(...)` / `ExtendedSWHID(...)`: converter, then validators -/
def mkBase (tags : List Str) (t : Str) (id : Bytes) : Except ErrKind BaseSwhid :=
  objectTypeConv tags t >>= fun ty =>
  checkObjectId id >>= fun _ =>
  .ok ⟨ty, id⟩

/-- `_BaseSWHID.from_string` -/
def baseFromString (tags : List Str) (s : Str) : Except ErrKind BaseSwhid :=
  parseParts s >>= fun parts =>
  if !parts.qualifiers.isEmpty then .error .validation
  else wrapValueError (mkBase tags parts.objectType parts.objectId)

def coreFromString (s : Str) : Except ErrKind BaseSwhid := baseFromString coreTags s
def extFromString (s : Str) : Except ErrKind BaseSwhid := baseFromString extTags s

/-- `_parse_lines_qualifier` before its `except ValueError` -/
def parseLinesRaw (lim : Option Nat) (v : Str) : Except ErrKind (Nat × Option Nat) :=
  if '-' ∈ v then
    -- `(from_, to) = lines.split("-", 2)`: unpacking succeeds only with exactly two pieces
    match splitOnL '-' v with
    | [a, b] => pyInt lim a >>= fun x => pyInt lim b >>= fun y => .ok (x, some y)
    | _ => .error .valueError
  else pyInt lim v >>= fun x => .ok (x, none)

def parseLines (lim : Option Nat) (v : Str) : Except ErrKind (Nat × Option Nat) :=
  wrapValueError (parseLinesRaw lim v)

/-- an attrs converter applied to an optional keyword argument -/
def optConv {α} (f : Str → Except ErrKind α) : Option Str → Except ErrKind (Option α)
  | none => .ok none
  | some x => f x >>= fun y => .ok (some y)

/-- `check_visit` / `check_anchor` -/
def checkRefType (allowed : List Str) : Option BaseSwhid → Except ErrKind Unit
  | none => .ok ()
  | some v => if v.objectType ∈ allowed then .ok () else .error .validation

/-- `QualifiedSWHID(**parts, **qualifiers)`: converters in field order, then validators -/
def mkQualified (lim : Option Nat) (t : Str) (id : Bytes) (origin : Option Str)
    (visit anchor path lines : Option Str) : Except ErrKind QualSwhid :=
  objectTypeConv coreTags t >>= fun ty =>
  optConv coreFromString visit >>= fun vi =>
  optConv coreFromString anchor >>= fun an =>
  optConv (fun p => .ok (unquoteToBytes p)) path >>= fun pa =>
  optConv (parseLines lim) lines >>= fun li =>
  checkObjectId id >>= fun _ =>
  checkRefType visitTags vi >>= fun _ =>
  checkRefType anchorTags an >>= fun _ =>
  .ok { objectType := ty, objectId := id, origin := origin, visit := vi, anchor := an,
        path := pa, lines := li }

/-- `QualifiedSWHID.from_string` -/
def qualFromStringW (lim : Option Nat) (s : Str) : Except ErrKind QualSwhid :=
  parseParts s >>= fun parts =>
  let q := parts.qualifiers
  if q.any (fun kv => !(qualKeys.contains kv.1)) then .error .validation
  -- a key of SWHID_QUALIFIERS that is not a constructor argument would be a TypeError
  else if q.any (fun kv => !(fieldNames.contains kv.1)) then .error .typeError
  else
    wrapValueError
      (mkQualified lim parts.objectType parts.objectId ((dictGet q qkOrigin).map pyUnquote)
        (dictGet q qkVisit) (dictGet q qkAnchor) (dictGet q qkPath) (dictGet q qkLines))

/-- `cls.from_string(s)`, with the digit limit of `int` as a parameter -/
def parseSwhidW (lim : Option Nat) (cls : SwhidClass) (s : Str) : Except ErrKind Value :=
  match cls with
  | .core => coreFromString s >>= fun v => .ok (.core v)
  | .extended => extFromString s >>= fun v => .ok (.extended v)
  | .qualified => qualFromStringW lim s >>= fun v => .ok (.qualified v)

/-- `cls.from_string(s)` under CPython's default limit of 4300 digits -/
def parseSwhid (cls : SwhidClass) (s : Str) : Except ErrKind Value := parseSwhidW (some maxDigits) cls s

/-! ### conversions -/

/-- `CoreSWHID.to_extended` -/
def toExtended (v : BaseSwhid) : Except ErrKind BaseSwhid := mkBase extTags v.objectType v.objectId

/-- `CoreSWHID.to_qualified` -/
def toQualified (v : BaseSwhid) : Except ErrKind QualSwhid :=
  mkQualified (some maxDigits) v.objectType v.objectId none none none none none

end Swh
