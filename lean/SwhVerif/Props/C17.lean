import SwhVerif.Lemmas.Discovery
/-!
# C17 — archive discovery (`swh/model/discovery.py`) is exact for every schedule

Model: `SwhVerif/Model/Discovery.lean`.  Vocabulary (defined in `SwhVerif/Lemmas/Discovery.lean`):

* `Closed ids dirs K` : every input directory known to the archive `K` has all those of its
  entries that are input objects known as well (entries pointing outside the input are ignored).
* `Sched ω` : resolves every `set.pop()` and every `random.sample`; `ω`, the scheduler and its
  initial state are universally quantified, so the theorems cover every schedule.
* `ValidSched n O` : when `random.sample` is called (more than `n` undecided directories), it
  returns a non-empty list of undecided directories.  `random.sample(·, n)` for `n ≥ 1`
  (`StrictSample`) is a special case, see `validSched_ofFun`.
* `Inv ids K s` : `known ⊆ K`, `unknown ∩ K = ∅`, `undecided`/`known`/`unknown` partition the
  input ids, the callback log lists exactly `known ∪ unknown`, once each, with flag `K id`.

No hypothesis on acyclicity or on distinctness of ids is needed for 1–3 and 4a; distinct ids are
only used to phrase 4b as a permutation.
-/
namespace Swh.C17
open Swh Swh.Discovery

section
variable {ω : Type} (contents skipped dirs : List Obj) (K : Id → Bool) (n : Nat)
  (O : Sched ω) (o : ω)

/-- all input ids: contents, then skipped contents, then directories -/
abbrev ids : List Id := (Graph.mk contents skipped dirs).ids

/-! ## 1. soundness invariant -/

/-- **Every pop** of `_mark_entries` preserves the invariant, whichever element is popped. -/
theorem inv_step (hcl : Closed (ids contents skipped dirs) dirs K) (t : Target) {s : State}
    (hI : Inv (ids contents skipped dirs) K s) {w : List Id}
    (hw : WorkOK (ids contents skipped dirs) K t.flag w) {cur : Id} (hc : cur ∈ w) :
    Inv (ids contents skipped dirs) K (popStep ⟨contents, skipped, dirs⟩ t s w cur).1 ∧
    WorkOK (ids contents skipped dirs) K t.flag (popStep ⟨contents, skipped, dirs⟩ t s w cur).2 :=
  ⟨inv_pop t hI w (hw cur hc).1 (hw cur hc).2,
   workOK_pop (g := ⟨contents, skipped, dirs⟩) hcl t hI hw hc⟩

/-- **Every query** (`get_sample` + `do_query`) preserves the invariant, for every scheduler. -/
theorem inv_query (hv : ValidSched n O) (hcl : Closed (ids contents skipped dirs) dirs K)
    (r : Run ω) (hwf : Wf r.st) (hne : r.st.undecided ≠ [])
    (hI : Inv (ids contents skipped dirs) K r.st) :
    Inv (ids contents skipped dirs) K (queryStep ⟨contents, skipped, dirs⟩ K n O r).st ∧
    Wf (queryStep ⟨contents, skipped, dirs⟩ K n O r).st :=
  ⟨queryStep_inv ⟨contents, skipped, dirs⟩ K O hv hcl r hwf hne hI,
   (queryStep_struct ⟨contents, skipped, dirs⟩ K O hv r hwf hne).1⟩

/-- The invariant holds initially … -/
theorem inv_initial :
    Inv (ids contents skipped dirs) K (Graph.mk contents skipped dirs).init ∧
    Wf (Graph.mk contents skipped dirs).init :=
  ⟨inv_init _ K, wf_init _⟩

/-- … and **at the end of the run**, for every scheduler. -/
theorem sound (hv : ValidSched n O) (hcl : Closed (ids contents skipped dirs) dirs K) :
    Inv (ids contents skipped dirs) K (discover ⟨contents, skipped, dirs⟩ K n O o).1.st :=
  runLoop_inv ⟨contents, skipped, dirs⟩ K O hv hcl _ _ _ (wf_init _) (inv_init _ K)

/-- `sound` spelled out: at the end `known ⊆ K`, `unknown ∩ K = ∅`, and every id is an input id
    iff it is in exactly one of `undecided`, `known`, `unknown`. -/
theorem sound_explicit (hv : ValidSched n O) (hcl : Closed (ids contents skipped dirs) dirs K) :
    let s := (discover ⟨contents, skipped, dirs⟩ K n O o).1.st
    (∀ x ∈ s.known, K x = true) ∧ (∀ x ∈ s.unknown, K x = false) ∧
    (∀ x, x ∈ ids contents skipped dirs ↔ x ∈ s.undecided ∨ x ∈ s.known ∨ x ∈ s.unknown) ∧
    (∀ x ∈ s.undecided, x ∉ s.known ∧ x ∉ s.unknown) ∧ (∀ x ∈ s.known, x ∉ s.unknown) := by
  have h := sound contents skipped dirs K n O o hv hcl
  refine ⟨h.knownK, h.unknownK, h.cover, fun x hx => ⟨h.undK x hx, h.undU x hx⟩, ?_⟩
  intro x hk hu
  have h1 := h.knownK x hk
  rw [h.unknownK x hu] at h1
  cases h1

/-! ## 2. termination -/

/-- The run ends with `undecided = ∅` after at most `|input objects|` queries; neither the outer
    loop (fuel `|objects| + 1`) nor any `_mark_entries` loop runs out of fuel.
    Holds for every archive `K` (closed or not). -/
theorem terminates (hv : ValidSched n O) :
    (discover ⟨contents, skipped, dirs⟩ K n O o).1.st.undecided = [] ∧
    (discover ⟨contents, skipped, dirs⟩ K n O o).1.ok = true ∧
    (discover ⟨contents, skipped, dirs⟩ K n O o).2 ≤
      contents.length + skipped.length + dirs.length := by
  obtain ⟨a, b, c⟩ := runLoop_struct ⟨contents, skipped, dirs⟩ K O hv
    (runFuel ⟨contents, skipped, dirs⟩) ⟨(Graph.mk contents skipped dirs).init, o, true⟩ 0
    (wf_init _) (length_init_lt _)
  refine ⟨a, b, ?_⟩
  have h1 := length_init_lt ⟨contents, skipped, dirs⟩
  simp only [runFuel] at h1
  simp only [discover]
  simp only [Nat.zero_add] at c
  omega

/-- the same, read off the result of `filter_known_objects` -/
theorem terminates_result (hv : ValidSched n O) :
    (filterKnownObjects contents skipped dirs K n O o).ok = true ∧
    (filterKnownObjects contents skipped dirs K n O o).queries ≤
      contents.length + skipped.length + dirs.length := by
  rw [fko_ok, fko_queries]
  exact (terminates contents skipped dirs K n O o hv).2

/-! ## 3. exactness of the filter -/

/-- `filter_known_objects` returns exactly the objects the archive reports missing, in input
    order, for every scheduler. -/
theorem filter_exact (hv : ValidSched n O) (hcl : Closed (ids contents skipped dirs) dirs K) :
    (filterKnownObjects contents skipped dirs K n O o).contents =
      contents.filter (fun c => !K c.id) ∧
    (filterKnownObjects contents skipped dirs K n O o).skipped =
      skipped.filter (fun c => !K c.id) ∧
    (filterKnownObjects contents skipped dirs K n O o).directories =
      dirs.filter (fun c => !K c.id) := by
  have hI := sound contents skipped dirs K n O o hv hcl
  have hu := (terminates contents skipped dirs K n O o hv).1
  rw [fko_contents, fko_skipped, fko_directories]
  refine ⟨?_, ?_, ?_⟩
  · apply List.filter_congr
    intro x hx
    apply hI.unknown_iff hu
    simp only [ids, Graph.ids, List.mem_append, List.mem_map]
    exact Or.inl (Or.inl ⟨x, hx, rfl⟩)
  · apply List.filter_congr
    intro x hx
    apply hI.unknown_iff hu
    simp only [ids, Graph.ids, List.mem_append, List.mem_map]
    exact Or.inl (Or.inr ⟨x, hx, rfl⟩)
  · apply List.filter_congr
    intro x hx
    apply hI.unknown_iff hu
    simp only [ids, Graph.ids, List.mem_append, List.mem_map]
    exact Or.inr ⟨x, hx, rfl⟩

/-! ## 4. the callback fires exactly once per object, with the right flag -/

/-- 4a. the logged ids are duplicate-free, are exactly the input ids, and every call carries the
    flag `K id`. -/
theorem callback_once (hv : ValidSched n O) (hcl : Closed (ids contents skipped dirs) dirs K) :
    ((filterKnownObjects contents skipped dirs K n O o).log.map Prod.fst).Nodup ∧
    (∀ x, x ∈ (filterKnownObjects contents skipped dirs K n O o).log.map Prod.fst ↔
      x ∈ ids contents skipped dirs) ∧
    (∀ e ∈ (filterKnownObjects contents skipped dirs K n O o).log, e.2 = K e.1) := by
  have hI := sound contents skipped dirs K n O o hv hcl
  have hu := (terminates contents skipped dirs K n O o hv).1
  rw [fko_log]
  refine ⟨hI.logNodup, ?_, hI.logFlag⟩
  intro x
  rw [hI.logMem x, hI.cover x, hu]
  simp

/-- 4b. with pairwise distinct ids across the three lists: the log is a permutation of
    `[(id, K id) | id ∈ input]` — one call per object, flag = "the archive has it". -/
theorem callback_once_perm (hv : ValidSched n O)
    (hcl : Closed (ids contents skipped dirs) dirs K)
    (hnd : (ids contents skipped dirs).Nodup) :
    (filterKnownObjects contents skipped dirs K n O o).log.Perm
      ((ids contents skipped dirs).map (fun x => (x, K x))) := by
  obtain ⟨h1, h2, h3⟩ := callback_once contents skipped dirs K n O o hv hcl
  have hp := (List.perm_ext_iff_of_nodup h1 hnd).mpr h2
  have hm := hp.map (fun x => (x, K x))
  rw [List.map_map] at hm
  have : (filterKnownObjects contents skipped dirs K n O o).log.map
      ((fun x => (x, K x)) ∘ Prod.fst) = (filterKnownObjects contents skipped dirs K n O o).log := by
    conv => rhs; rw [← List.map_id (filterKnownObjects contents skipped dirs K n O o).log]
    apply List.map_congr_left
    intro e he
    rw [Function.comp, id, ← h3 e he]
  rw [this] at hm
  exact hm

end

/-! ## Corollaries for the concrete schedulers -/

/-- Stateless chooser `pick : work list → index` and sampler `State → sample`, the sampler
    behaving like `random.sample(·, n)` (`n ≥ 1` distinct undecided directories). -/
theorem correct_ofFun (contents skipped dirs : List Obj) (K : Id → Bool) (n : Nat) (hn : 1 ≤ n)
    (pick : List Id → Nat) (sampler : State → List Id)
    (hs : ∀ s : State, n < s.undecidedDirs.length → StrictSample n s (sampler s))
    (hcl : Closed (ids contents skipped dirs) dirs K) :
    let r := filterKnownObjects contents skipped dirs K n (Sched.ofFun pick sampler) ()
    r.ok = true ∧ r.queries ≤ contents.length + skipped.length + dirs.length ∧
    r.contents = contents.filter (fun c => !K c.id) ∧
    r.skipped = skipped.filter (fun c => !K c.id) ∧
    r.directories = dirs.filter (fun c => !K c.id) ∧
    (r.log.map Prod.fst).Nodup ∧ (∀ x, x ∈ r.log.map Prod.fst ↔ x ∈ ids contents skipped dirs) ∧
    (∀ e ∈ r.log, e.2 = K e.1) := by
  have hv := validSched_ofFun hn pick sampler hs
  obtain ⟨t1, t2⟩ := terminates_result contents skipped dirs K n _ () hv
  obtain ⟨f1, f2, f3⟩ := filter_exact contents skipped dirs K n _ () hv hcl
  obtain ⟨c1, c2, c3⟩ := callback_once contents skipped dirs K n _ () hv hcl
  exact ⟨t1, t2, f1, f2, f3, c1, c2, c3⟩

/-- The driver entry point `runScript` is correct for **every** script (recorded samples and
    pop indices), i.e. every replay the harness can request. -/
theorem correct_runScript (n : Nat) (contents skipped dirs : List Obj) (K : Id → Bool)
    (samples : List (List Id)) (picks : List Nat)
    (hcl : Closed (ids contents skipped dirs) dirs K) :
    let r := runScript n contents skipped dirs K samples picks
    r.ok = true ∧ r.queries ≤ contents.length + skipped.length + dirs.length ∧
    r.contents = contents.filter (fun c => !K c.id) ∧
    r.skipped = skipped.filter (fun c => !K c.id) ∧
    r.directories = dirs.filter (fun c => !K c.id) ∧
    (r.log.map Prod.fst).Nodup ∧ (∀ x, x ∈ r.log.map Prod.fst ↔ x ∈ ids contents skipped dirs) ∧
    (∀ e ∈ r.log, e.2 = K e.1) := by
  have hv := validSched_script n
  obtain ⟨t1, t2⟩ := terminates_result contents skipped dirs K n _ (samples, picks) hv
  obtain ⟨f1, f2, f3⟩ := filter_exact contents skipped dirs K n _ (samples, picks) hv hcl
  obtain ⟨c1, c2, c3⟩ := callback_once contents skipped dirs K n _ (samples, picks) hv hcl
  exact ⟨t1, t2, f1, f2, f3, c1, c2, c3⟩

/-- same for `runScriptIds` (pops recorded as ids) -/
theorem correct_runScriptIds (n : Nat) (contents skipped dirs : List Obj) (K : Id → Bool)
    (samples : List (List Id)) (pops : List Id)
    (hcl : Closed (ids contents skipped dirs) dirs K) :
    let r := runScriptIds n contents skipped dirs K samples pops
    r.ok = true ∧ r.queries ≤ contents.length + skipped.length + dirs.length ∧
    r.contents = contents.filter (fun c => !K c.id) ∧
    r.skipped = skipped.filter (fun c => !K c.id) ∧
    r.directories = dirs.filter (fun c => !K c.id) ∧
    (r.log.map Prod.fst).Nodup ∧ (∀ x, x ∈ r.log.map Prod.fst ↔ x ∈ ids contents skipped dirs) ∧
    (∀ e ∈ r.log, e.2 = K e.1) := by
  have hv := validSched_scriptIds n
  obtain ⟨t1, t2⟩ := terminates_result contents skipped dirs K n _ (samples, pops) hv
  obtain ⟨f1, f2, f3⟩ := filter_exact contents skipped dirs K n _ (samples, pops) hv hcl
  obtain ⟨c1, c2, c3⟩ := callback_once contents skipped dirs K n _ (samples, pops) hv hcl
  exact ⟨t1, t2, f1, f2, f3, c1, c2, c3⟩

/-! ## Non-vacuity: the hypotheses are satisfiable, the conclusions are not trivial

Two roots `10`, `11` sharing the sub-directory `12`; `10` also points to `99`, which is not an
input object; contents `1 2 3`, skipped content `4`.  The archive has `12`, `3`, `2`. -/

namespace Ex
def cs : List Obj := [⟨1, .content, []⟩, ⟨2, .content, []⟩, ⟨3, .content, []⟩]
def sk : List Obj := [⟨4, .skipped, []⟩]
def ds : List Obj :=
  [⟨10, .directory, [12, 1, 99]⟩, ⟨11, .directory, [12, 2, 4]⟩, ⟨12, .directory, [3]⟩]
def K : Id → Bool := fun x => x == 12 || x == 3 || x == 2

example : (ids cs sk ds).Nodup := by decide
example : Closed (ids cs sk ds) ds K := by unfold Closed; decide
/-- `K` is neither empty nor everything on the input -/
example : K 12 = true ∧ K 10 = false := by decide
example : ValidSched 1 (scriptSched 1) := validSched_script 1

/-- one replay (sample size 1, so `random.sample` is called twice): 4 queries -/
example : (runScript 1 cs sk ds K [[12], [10]] [1, 0, 0]).contentIds = [1] ∧
    (runScript 1 cs sk ds K [[12], [10]] [1, 0, 0]).skippedIds = [4] ∧
    (runScript 1 cs sk ds K [[12], [10]] [1, 0, 0]).directoryIds = [10, 11] ∧
    (runScript 1 cs sk ds K [[12], [10]] [1, 0, 0]).queries = 4 ∧
    (runScript 1 cs sk ds K [[12], [10]] [1, 0, 0]).log =
      [(12, true), (3, true), (10, false), (11, false), (2, true), (1, false), (4, false)] := by
  decide

/-- another schedule (sample size 2, pops by id): 3 queries, different callback order, same lists -/
example : (runScriptIds 2 cs sk ds K [[11, 12]] [12, 11]).directoryIds = [10, 11] ∧
    (runScriptIds 2 cs sk ds K [[11, 12]] [12, 11]).queries = 3 ∧
    (runScriptIds 2 cs sk ds K [[11, 12]] [12, 11]).log =
      [(12, true), (3, true), (11, false), (10, false), (2, true), (1, false), (4, false)] := by
  decide

-- #eval runScript 1000 cs sk ds K [] []
--   contents := [1], skipped := [4], directories := [10, 11],
--   log := [(12, true), (3, true), (10, false), (11, false), (2, true), (1, false), (4, false)],
--   queries := 2, ok := true

/-! `Closed` cannot be dropped: with the archive holding `20` but not its entry `21`, the outcome
    depends on the schedule — the known directory `20` is reported missing when `21` is sampled
    first, the missing `21` is dropped when `20` is sampled first, and when both are sampled
    together `21` is returned as missing although its callback said `known = true`. -/
def ds' : List Obj := [⟨20, .directory, [21]⟩, ⟨21, .directory, []⟩]
def K' : Id → Bool := fun x => x == 20

example : ¬ Closed (ids [] [] ds') ds' K' := by unfold Closed; decide
example : (runScript 1 [] [] ds' K' [[21]] []).directoryIds = [20, 21] := by decide
example : (runScript 1 [] [] ds' K' [[20]] []).directoryIds = [] := by decide
example : (runScript 1000 [] [] ds' K' [] []).directoryIds = [21] ∧
    (runScript 1000 [] [] ds' K' [] []).log = [(20, true), (21, true)] := by decide
end Ex

end Swh.C17
