import SwhVerif.Lemmas.Manifests
/-!
# C03 — Revision ids are git commit ids for every field combination
`revisionId H r = H (revisionManifest r)`; SHA-1 is uninterpreted.  Attributes that are not part
of a commit (type, synthetic flag, split name/email, metadata other than legacy extra headers)
are not arguments of the model function at all.
-/
namespace Swh.C03
open Swh

def revisionId (H : Bytes → Bytes) (r : RevAttrs) : Bytes := H (revisionManifest r)

/-- header keys git can parse back, and that do not collide with the fixed commit headers -/
def WfRev (r : RevAttrs) : Prop :=
  ∀ kv ∈ r.effectiveHeaders, wfKey kv.1 = true ∧ kv.1 ≠ kParent ∧ kv.1 ≠ kAuthor ∧ kv.1 ≠ kCommitter

def expectedParse (r : RevAttrs) : ParsedCommit :=
  ⟨hexLower r.directory, r.usedParents.map hexLower,
   r.author.map (fun a => personLine a r.date),
   r.committer.map (fun c => personLine c r.committerDate),
   r.effectiveHeaders, r.message⟩

theorem revisionHeaders_wf (r : RevAttrs) (hw : WfRev r) :
    ∀ kv ∈ revisionHeaders r, wfKey kv.1 = true := by
  intro kv hkv
  unfold revisionHeaders at hkv
  simp only [List.mem_append, List.mem_cons, List.mem_map, List.not_mem_nil, or_false] at hkv
  rcases hkv with ((( rfl | ⟨p, _, rfl⟩) | h) | h) | h
  · exact (by decide : wfKey kTree = true)
  · exact (by decide : wfKey kParent = true)
  · cases ha : r.author with
    | none => simp [ha] at h
    | some a => simp [ha] at h; subst h; exact (by decide : wfKey kAuthor = true)
  · cases hc : r.committer with
    | none => simp [hc] at h
    | some c => simp [hc] at h; subst h; exact (by decide : wfKey kCommitter = true)
  · exact (hw kv h).1

/-- **An independent commit parser recovers every field** — for every presence/absence
    combination of author/committer/dates, any number of parents, any seconds, microseconds
    and recorded offset bytes, any header values (multi-line, empty, leading spaces) and any
    message (absent, empty, arbitrary bytes). -/
theorem parseCommit_revisionManifest (r : RevAttrs) (hw : WfRev r) :
    parseCommit (revisionManifest r) = some (expectedParse r) := by
  unfold parseCommit revisionManifest
  rw [stripGitHeader_gitObject commitTy _ (by decide)]
  simp only
  unfold revisionBody
  rw [parseHeaders_fmtHeaders _ _ (revisionHeaders_wf r hw)]
  simp only
  -- now peel the reconstructed header list
  have hextra_p : headKeyNe kParent r.effectiveHeaders := headKeyNe_of_all _ _ (fun kv h => (hw kv h).2.1)
  have hextra_a : headKeyNe kAuthor r.effectiveHeaders := headKeyNe_of_all _ _ (fun kv h => (hw kv h).2.2.1)
  have hextra_c : headKeyNe kCommitter r.effectiveHeaders := headKeyNe_of_all _ _ (fun kv h => (hw kv h).2.2.2)
  have hAC : kAuthor ≠ kCommitter := by decide
  have hAP : kAuthor ≠ kParent := by decide
  have hCP : kCommitter ≠ kParent := by decide
  have hm : r.usedParents.map (fun p => (kParent, hexLower p))
      = (r.usedParents.map hexLower).map (fun v => (kParent, v)) := by simp [List.map_map]
  unfold parseCommitHs revisionHeaders expectedParse
  simp only [List.cons_append, List.nil_append, List.append_assoc, takeKey_hit]
  rw [hm]
  cases ha : r.author <;> cases hc : r.committer <;>
    simp only [Option.map, List.nil_append, List.cons_append]
  · rw [takeKeyMany_map _ _ _ hextra_p]
    simp only []
    rw [takeKeyOpt_miss _ _ hextra_a]
    simp only []
    rw [takeKeyOpt_miss _ _ hextra_c]
  · rw [takeKeyMany_map _ _ _ (headKeyNe_cons _ _ _ _ hCP)]
    simp only []
    rw [takeKeyOpt_miss _ _ (headKeyNe_cons _ _ _ _ hAC.symm)]
    simp only []
    rw [takeKeyOpt_hit]
  · rw [takeKeyMany_map _ _ _ (headKeyNe_cons _ _ _ _ hAP)]
    simp only []
    rw [takeKeyOpt_hit]
    simp only []
    rw [takeKeyOpt_miss _ _ hextra_c]
  · rw [takeKeyMany_map _ _ _ (headKeyNe_cons _ _ _ _ hAP)]
    simp only []
    rw [takeKeyOpt_hit]
    simp only []
    rw [takeKeyOpt_hit]

/-- **Different commits never share a manifest** (on well-formed keys): equal manifests give
    equal tree, parents, author and committer lines, extra headers and message. -/
theorem revisionManifest_injective (r r' : RevAttrs) (hw : WfRev r) (hw' : WfRev r')
    (h : revisionManifest r = revisionManifest r') : expectedParse r = expectedParse r' := by
  have a := parseCommit_revisionManifest r hw
  rw [h, parseCommit_revisionManifest r' hw'] at a
  exact (Option.some.inj a).symm

/-- the person line determines the name and, when dated, the exact date text and offset bytes -/
theorem personLine_dated (fn : Bytes) (d : DateV) :
    personLine fn (some d) = fn ++ bSP :: (formatDate d.seconds d.micros ++ bSP :: d.offset) := rfl

theorem personLine_undated (fn : Bytes) : personLine fn none = fn := rfl

/-- **Legacy metadata headers**: giving the extra headers inside legacy metadata, or as the
    attribute, yields the same manifest and id. -/
theorem revision_legacy_headers (r : RevAttrs) (hs : List Header) (other : Option (List Header)) :
    revisionManifest { r with extraHeaders := hs, metaHeaders := other }
      = revisionManifest { r with extraHeaders := [], metaHeaders := some hs } ∨ hs = [] := by
  cases hs with
  | nil => right; rfl
  | cons h t =>
    left
    simp [revisionManifest, revisionBody, revisionHeaders, RevAttrs.effectiveHeaders, RevAttrs.usedParents]

/-- empty parent ids are skipped, the others keep their order -/
theorem parents_in_order (r : RevAttrs) :
    (expectedParse r).parents = (r.parents.filter (fun p => !p.isEmpty)).map hexLower := rfl

/-- a date without its person is never written (the constructor rejects it anyway) -/
theorem date_needs_person (r : RevAttrs) (d d' : Option DateV) (h : r.author = none) :
    revisionManifest { r with date := d } = revisionManifest { r with date := d' } := by
  simp [revisionManifest, revisionBody, revisionHeaders, h, RevAttrs.effectiveHeaders, RevAttrs.usedParents]

/-- the key hypothesis is necessary: with a space inside a key two header lists collide -/
example :
    revisionManifest ⟨[], [], none, none, none, none, [(asc ['a',' ','b'], asc ['c'])], none, none⟩
  = revisionManifest ⟨[], [], none, none, none, none, [(asc ['a'], asc ['b',' ','c'])], none, none⟩ := by
  simp [revisionManifest, revisionBody, revisionHeaders, RevAttrs.effectiveHeaders,
    RevAttrs.usedParents, fmtHeaders, fmtHeader, escapeNewlines, asc, bSP, bNL]

/-- non-vacuity: a revision with gpgsig-like multi-line header, empty value, mergetag -/
def exRev : RevAttrs :=
  ⟨List.replicate 20 1, [List.replicate 20 2, [], List.replicate 20 3],
   some (asc ['A',' ','<','a','>']), some ⟨-1, 500000, asc ['+','2','0','0']⟩,
   some (asc ['C']), none,
   [(asc ['g','p','g','s','i','g'], asc ['-','\n','\n',' ','x']), (asc ['e','n','c'], [])],
   none, some []⟩

example : WfRev exRev := by
  unfold WfRev exRev RevAttrs.effectiveHeaders
  simp
  decide

end Swh.C03
