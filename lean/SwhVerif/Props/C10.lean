import SwhVerif.Lemmas.MerkleCheck
import SwhVerif.Lemmas.MerkleAcyclic
/-!
# C10 — Merkle nodes never report a stale hash

Model: `Swh.Merkle` (`Model/Merkle.lean`), the heap of `MerkleNode`/`Directory`/`Content` objects
with `invalidate_hash`, `update_hash`, `__setitem__`, `__delitem__`, `update`, nested path keys
and the derived caches of `Directory`.  `hashFn` is an arbitrary function; `fresh hashFn h n` is
the hash of `n` recomputed from the current structure alone and `freshEntries` the entry
list / model tuple recomputed likewise.  `AcyclicHist hashFn h ops` says that every heap along
the history is acyclic (cyclic structures make the implementation recurse forever).
The model is of the repaired `parents.remove` (by identity).
-/
namespace Swh.C10
open Swh Swh.Merkle
variable {H : Type} {hashFn : Data → List (EntryV H) → H}

/-- the invariant holds initially -/
theorem inv_init : Inv hashFn (Heap.empty : Heap H) := inv_empty

/-- every operation preserves the invariant on an acyclic heap -/
theorem inv_step (h : Heap H) (op : Op) (i : Inv hashFn h) (a : Acyclic h) :
    Inv hashFn (step hashFn h op).1 := (step_post i a op).inv

/-- the invariant holds after every acyclic history -/
theorem inv_run (ops : List Op) (a : AcyclicHist hashFn (Heap.empty : Heap H) ops) :
    Inv hashFn (run hashFn Heap.empty ops).1 := by
  rw [run_eq]; exact (trace_post ops _ inv_empty a).2.1

/-- the outputs of `run` are the outputs recorded in `trace` -/
theorem run_outputs (h : Heap H) (ops : List Op) :
    (run hashFn h ops).2 = (trace hashFn h ops).map (·.2.1) := by rw [run_eq]

/-- **No stale hash.** For every finite history from the empty heap that keeps the structure
acyclic:
* every `readHash` / `forceUpdate` / `readEntries` / `readModel` on an allocated node (a
  `Directory` for the last two) returns the from-scratch value of the heap at that moment;
* after every operation, every cached hash, cached entry list and cached model object of every
  node equals the from-scratch value. -/
theorem no_stale_hash (ops : List Op) (a : AcyclicHist hashFn (Heap.empty : Heap H) ops) :
    ∀ t ∈ trace hashFn (Heap.empty : Heap H) ops,
      OutOk hashFn t.2.2 t.1 t.2.1 ∧
      (∀ n v, (t.2.2.get n).cache = some v → v = fresh hashFn t.2.2 n) ∧
      (∀ n e, (t.2.2.get n).entriesCache = some e → e = freshEntries hashFn t.2.2 n) ∧
      (∀ n e, (t.2.2.get n).modelCache = some e → e = freshEntries hashFn t.2.2 n) := by
  intro t ht
  obtain ⟨i, ac, o⟩ := (trace_post ops _ inv_empty a).1 t ht
  refine ⟨o, fun n v hv => cache_eq_fresh _ i ac n v hv, ?_, ?_⟩
  · intro n e he
    rw [i.entV n e he]
    exact dirEntries_eq_fresh _ i ac n (i.kids_cached n (by simp [Node.hasAny, he]))
  · intro n e he
    rw [i.modV n e he]
    exact dirEntries_eq_fresh _ i ac n (i.kids_cached n (by simp [Node.hasAny, he]))

/-- The hypothesis `AcyclicHist` (a strict rank bounded by the number of nodes, for every heap of
the history) is nothing more than the absence of cycles: `NoCycleHist` (no node of any heap of the
history is reachable from one of its own children) implies it. -/
theorem acyclic_of_no_cycle (ops : List Op)
    (nc : NoCycleHist hashFn (Heap.empty : Heap H) ops) :
    AcyclicHist hashFn (Heap.empty : Heap H) ops :=
  acyclicHist_of_noCycleHist ops _ inv_empty nc

/-- `no_stale_hash` under the plain "no cycles" hypothesis -/
theorem no_stale_hash_of_no_cycle (ops : List Op)
    (nc : NoCycleHist hashFn (Heap.empty : Heap H) ops) :
    ∀ t ∈ trace hashFn (Heap.empty : Heap H) ops,
      OutOk hashFn t.2.2 t.1 t.2.1 ∧
      (∀ n v, (t.2.2.get n).cache = some v → v = fresh hashFn t.2.2 n) ∧
      (∀ n e, (t.2.2.get n).entriesCache = some e → e = freshEntries hashFn t.2.2 n) ∧
      (∀ n e, (t.2.2.get n).modelCache = some e → e = freshEntries hashFn t.2.2 n) :=
  no_stale_hash ops (acyclic_of_no_cycle ops nc)

/-- the same at the end of the history, for the heap returned by `run` -/
theorem no_stale_hash_final (ops : List Op) (a : AcyclicHist hashFn (Heap.empty : Heap H) ops) :
    let h := (run hashFn Heap.empty ops).1
    (∀ n v, (h.get n).cache = some v → v = fresh hashFn h n) ∧
    (∀ n e, (h.get n).entriesCache = some e → e = freshEntries hashFn h n) ∧
    (∀ n e, (h.get n).modelCache = some e → e = freshEntries hashFn h n) := by
  intro h
  have hh : h = runHeap hashFn Heap.empty ops := by show (run hashFn Heap.empty ops).1 = _; rw [run_eq]
  obtain ⟨_, i, ac⟩ := trace_post ops _ (inv_empty (hashFn := hashFn)) a
  rw [← hh] at i ac
  refine ⟨fun n v hv => cache_eq_fresh _ i ac n v hv, ?_, ?_⟩
  · intro n e he
    rw [i.entV n e he]
    exact dirEntries_eq_fresh _ i ac n (i.kids_cached n (by simp [Node.hasAny, he]))
  · intro n e he
    rw [i.modV n e he]
    exact dirEntries_eq_fresh _ i ac n (i.kids_cached n (by simp [Node.hasAny, he]))

/-- `fresh` is *the* from-scratch hash: on an acyclic heap it satisfies the defining equation
`hash(n) = hashFn data [(name, kind, hash(child)) …]` (sorted for a `Directory`). -/
theorem fresh_spec (h : Heap H) (a : Acyclic h) (n : Id) :
    fresh hashFn h n = hashFn (h.get n).data
      ((if (h.get n).isDir then sortE (freshEnt (fresh hashFn h) h (h.get n).children)
        else freshEnt (fresh hashFn h) h (h.get n).children)) := fresh_eq h a n

/-- **Removing a node from one parent never disturbs its link to another parent**: `del p[name]`
leaves, in every node's `parents`, the number of back-links to every node other than `p`
unchanged. -/
theorem delItem_keeps_other_links (h : Heap H) (i : Inv hashFn h) (p : Id) (name : Name)
    (q : Id) (hq : q ≠ p) (d : Id) :
    ((step hashFn h (.delItem p [name])).1.get d).parents.count q = (h.get d).parents.count q := by
  obtain ⟨t, ht, hl⟩ := stepDel_links i p [name]
  exact hl q (by rw [ht rfl]; exact hq) d

/-- nested form: `del p[a/…/name]` only touches back-links to one node `t` (the directory the last
component is removed from) -/
theorem delItem_keeps_other_links_nested (h : Heap H) (i : Inv hashFn h) (p : Id)
    (path : List Name) :
    ∃ t, ∀ q, q ≠ t → ∀ d,
      ((step hashFn h (.delItem p path)).1.get d).parents.count q = (h.get d).parents.count q := by
  obtain ⟨t, _, hl⟩ := stepDel_links i p path
  exact ⟨t, hl⟩

/-- …and it removes exactly one back-link to `t` from the removed child, none from the others -/
theorem delAt_removes_exactly_one (h : Heap H) (i : Inv hashFn h) (t : Id) (name : Name)
    (ht : t < h.size) (hl : (h.get t).isLeaf = false) (o : Id)
    (ho : dictGet (h.get t).children name = some o) (d : Id) :
    ((delAt h t name).1.get d).parents.count t =
      (h.get d).parents.count t - (if d = o then 1 else 0) :=
  delAt_removes_one i t name ht hl o ho d

/-! ### non-vacuity: a concrete DAG history

Nodes: `0` leaf, `1` the shared child, `2` and `3` two structurally equal parents (same data,
same children), `4` a leaf added later below the shared child.  The child is deleted from parent
`2`, then changed below; hashes are read in between. -/

def exName (s : String) : Name := s.toList.map (fun c => UInt8.ofNat c.toNat)

def exOps : List Op := [
  .newNode 7 false true, .newNode 9 false false, .newNode 1 false false, .newNode 1 false false,
  .setItem 1 [exName "l"] 0, .setItem 2 [exName "x"] 1, .setItem 3 [exName "x"] 1,
  .readHash 2, .readHash 3,
  .delItem 2 [exName "x"],
  .readHash 2, .readHash 3,
  .newNode 8 false true, .setItem 1 [exName "m"] 4,
  .readHash 3, .readHash 2, .forceUpdate 3, .update 2 [(exName "y", 1), (exName "z", 4)],
  .readHash 2, .delItem 1 [exName "l"], .readHash 2, .readHash 3]

/-- the example history keeps the structure acyclic (rank: leaves 0, shared child 1, parents 2) -/
theorem exOps_acyclic : AcyclicHist HTerm.hashFn (Heap.empty : Heap HTerm) exOps :=
  acyclicHist_of_check [0, 1, 2, 2, 0] exOps Heap.empty (by decide +kernel)

example : ∀ t ∈ trace HTerm.hashFn (Heap.empty : Heap HTerm) exOps,
    OutOk HTerm.hashFn t.2.2 t.1 t.2.1 :=
  fun t ht => (no_stale_hash exOps exOps_acyclic t ht).1

example : Inv HTerm.hashFn (run HTerm.hashFn Heap.empty exOps).1 := inv_run exOps exOps_acyclic

/-- no operation of the example is rejected -/
example : ((run HTerm.hashFn Heap.empty exOps).2.all (fun o => !o.isErr)) = true := by
  decide +kernel

/-! A second history on `Directory`/`Content` nodes with nested path keys and the derived caches:
two equal top directories `3`, `4` sharing the sub-directory `2`. -/

def exDirOps : List Op := [
  .newNode 3 false true, .newNode 5 false true,
  .newNode 2 true false, .newNode 4 true false, .newNode 4 true false,
  .setItem 3 [exName "a"] 2, .setItem 4 [exName "a"] 2,
  .setItem 3 [exName "a", exName "f"] 0, .setItem 3 [exName "a.b"] 1, .setItem 4 [exName "a.b"] 1,
  .readHash 3, .readEntries 4, .readModel 3,
  .contains 4 [exName "a", exName "f"],
  .delItem 3 [exName "a"], .readHash 3, .readHash 4,
  .setItem 4 [exName "a", exName "g"] 1, .readEntries 4, .readModel 4, .readHash 4, .readHash 3,
  .delItem 4 [exName "a", exName "f"], .readModel 4, .forceUpdate 4]

theorem exDirOps_acyclic : AcyclicHist HTerm.hashFn (Heap.empty : Heap HTerm) exDirOps :=
  acyclicHist_of_check [0, 0, 1, 2, 2] exDirOps Heap.empty (by decide +kernel)

example : ((run HTerm.hashFn Heap.empty exDirOps).2.all (fun o => !o.isErr)) = true := by
  decide +kernel

example : ∀ t ∈ trace HTerm.hashFn (Heap.empty : Heap HTerm) exDirOps,
    OutOk HTerm.hashFn t.2.2 t.1 t.2.1 :=
  fun t ht => (no_stale_hash exDirOps exDirOps_acyclic t ht).1

/-! A third history, with a hash that does NOT cover everything the parent's hash covers (as
`sha1_git` does not cover a `Content`'s permissions): leaves `0` and `1` (data 3 and 5) get the same
hash under `exQ`, and replacing one by the other — both already hashed — must still change the hash
reported by the directory above.  The theorems hold for every `hashFn`, hence for this one. -/

def exQ (d : Data) : Data := if d % 2 = 1 then d / 6 * 6 + 1 else d

def exPermOps : List Op := [
  .newNode 3 false true, .newNode 5 false true, .newNode 2 true false, .newNode 4 true false,
  .setItem 2 [exName "x"] 0, .setItem 3 [exName "s"] 2,
  .readHash 3, .readHash 1, .readHash 0,
  .setItem 2 [exName "x"] 1, .readHash 3, .readEntries 2]

theorem exPermOps_acyclic :
    AcyclicHist (HTerm.hashFnQ exQ) (Heap.empty : Heap HTerm) exPermOps :=
  acyclicHist_of_check [0, 0, 1, 2] exPermOps Heap.empty (by decide +kernel)

example : ∀ t ∈ trace (HTerm.hashFnQ exQ) (Heap.empty : Heap HTerm) exPermOps,
    OutOk (HTerm.hashFnQ exQ) t.2.2 t.1 t.2.1 :=
  fun t ht => (no_stale_hash exPermOps exPermOps_acyclic t ht).1

def exLeafHash : Option (Out HTerm) → Option Data
  | some (.hash (.node a [])) => some a
  | _ => none

/-- the child data (permissions) recorded in the hash of the top directory for `s/x` -/
def exPermUnder : Option (Out HTerm) → Option Data
  | some (.hash (.node _ [(_, _, _, .node _ [(_, _, c, _)])])) => some c
  | _ => none

/-- the two leaves share a hash; the top directory's hash records permission data 3 before and 5
after the replacement; nothing is rejected -/
example :
    let outs := (run (HTerm.hashFnQ exQ) Heap.empty exPermOps).2
    exLeafHash outs[7]? = some 1 ∧ exLeafHash outs[8]? = some 1 ∧
    exPermUnder outs[6]? = some 3 ∧ exPermUnder outs[10]? = some 5 ∧
    outs.all (fun o => !o.isErr) = true := by
  decide +kernel

end Swh.C10
