import SwhVerif.Model.Identity
import SwhVerif.Model.Manifests
import SwhVerif.Model.Snapshot
import SwhVerif.Model.Directory
/-!
# C07 — An object's id is the hash of its manifest, and integrity checking is exact
Stated once, generically in the attribute type `A`, the manifest function and the hash `H`, and
then instantiated with the seven manifest functions of the model.
-/
namespace Swh.C07
open Swh Swh.Identity

variable {A : Type} (H : Bytes → Bytes) (manifestOf : A → Bytes)

/-- **Built without an explicit id, an object carries the hash of its own manifest** (of the
    stored raw manifest when one is given). -/
theorem mk_id (a : A) (raw : Option Bytes) :
    (mk H manifestOf a raw []).id = (match raw with | none => H (manifestOf a) | some r => H r) := by
  cases raw <;> simp [mk, computeHash, hashFromAttrs]

/-- … the same value as recomputing it later -/
theorem compute_stable (a : A) (raw : Option Bytes) :
    computeHash H manifestOf (mk H manifestOf a raw []) = (mk H manifestOf a raw []).id := by
  cases raw <;> simp [mk, computeHash, hashFromAttrs]

/-- an explicit (non-empty) id is kept as given -/
theorem mk_explicit (a : A) (raw : Option Bytes) (id : Bytes) (h : id ≠ []) :
    (mk H manifestOf a raw id).id = id := by
  cases id with
  | nil => exact absurd rfl h
  | cons x xs => simp [mk]

/-- **The consistency check is exact**: it accepts iff the id equals the recomputed one and the
    raw manifest (if any) is needed. -/
theorem check_iff (o : Obj A) :
    check H manifestOf o = .ok () ↔
      (o.id = computeHash H manifestOf o ∧ (o.raw = none ∨ o.id ≠ hashFromAttrs H manifestOf o)) := by
  unfold check computeHash hashFromAttrs
  cases hr : o.raw with
  | none =>
    by_cases h1 : o.id = H (manifestOf o.attrs) <;> simp [h1]
  | some r =>
    by_cases h1 : o.id = H r <;> by_cases h2 : o.id = H (manifestOf o.attrs) <;> simp [h1, h2]
    all_goals simp_all

/-- **Any other id is rejected** — every bit flip, truncation or random value. -/
theorem check_rejects_other_id (o : Obj A) (h : o.id ≠ computeHash H manifestOf o) :
    check H manifestOf o = .error .valueError := by
  simp [check, h]

/-- a freshly built object without raw manifest passes the check -/
theorem mk_check_ok (a : A) : check H manifestOf (mk H manifestOf a none []) = .ok () := by
  rw [check_iff]; simp [mk, computeHash, hashFromAttrs]

/-- **A raw manifest that the attributes alone would reproduce is rejected** -/
theorem check_rejects_unneeded_raw (a : A) (r : Bytes) (h : H r = H (manifestOf a)) :
    check H manifestOf (mk H manifestOf a (some r) []) = .error .valueError := by
  simp [check, mk, computeHash, hashFromAttrs, h]

/-- … and one that is needed is accepted -/
theorem check_accepts_needed_raw (a : A) (r : Bytes) (h : H r ≠ H (manifestOf a)) :
    check H manifestOf (mk H manifestOf a (some r) []) = .ok () := by
  rw [check_iff]; simp [mk, computeHash, hashFromAttrs, h]

/-- **Deriving a modified copy yields an id that matches the new content** -/
theorem evolve_id (o : Obj A) (f : A → A) (rc : Option (Option Bytes)) :
    (evolve H manifestOf o f rc).id = computeHash H manifestOf (evolve H manifestOf o f rc) := by
  cases rc with
  | none => cases hr : o.raw <;> simp [evolve, computeHash, hashFromAttrs, hr]
  | some r => cases r <;> simp [evolve, computeHash, hashFromAttrs]

theorem evolve_check_ok (o : Obj A) (f : A → A) (h : o.raw = none) :
    check H manifestOf (evolve H manifestOf o f none) = .ok () := by
  rw [check_iff]; simp [evolve, computeHash, hashFromAttrs, h]

/-- the driver's digest-level logic is the model's logic -/
theorem checkLogic_eq (o : Obj A) :
    checkLogic (H (manifestOf o.attrs)) (o.raw.map H) o.id = check H manifestOf o := by
  cases hr : o.raw <;> simp [checkLogic, check, computeHash, hashFromAttrs, hr]

theorem idLogic_eq (a : A) (raw : Option Bytes) (id : Bytes) :
    idLogic (H (manifestOf a)) (raw.map H) id = (mk H manifestOf a raw id).id := by
  cases raw <;> cases hid : id.isEmpty <;> simp [idLogic, mk, computeHash, hashFromAttrs, hid]

/-- **The SWHID carries the right object type** (table regenerated from the live `swhid()`s) -/
theorem swhid_tags :
    swhidTag "origin" = some "ori" ∧ swhidTag "snapshot" = some "snp" ∧
    swhidTag "release" = some "rel" ∧ swhidTag "revision" = some "rev" ∧
    swhidTag "directory" = some "dir" ∧ swhidTag "raw_extrinsic_metadata" = some "emd" ∧
    swhidTag "content" = some "cnt" := by decide

/-! ### the seven instantiations -/

/-- the ids of the seven identified kinds, each as `H` of the model's manifest function -/
def originId (H : Bytes → Bytes) (url : Bytes) := (mk H originManifest url none []).id
def snapshotId (H : Bytes → Bytes) (bs : List Branch) := (mk H snapshotIdManifest bs none []).id
def directoryId (H : Bytes → Bytes) (es : List Entry) (raw : Option Bytes) := (mk H dirManifest es raw []).id
def revisionId (H : Bytes → Bytes) (r : RevAttrs) (raw : Option Bytes) := (mk H revisionManifest r raw []).id
def releaseId (H : Bytes → Bytes) (r : RelAttrs) (raw : Option Bytes) := (mk H releaseManifest r raw []).id
def remId (H : Bytes → Bytes) (m : RemAttrs) := (mk H remManifest m none []).id
def extidId (H : Bytes → Bytes) (e : ExtidAttrs) := (mk H extidManifest e none []).id

theorem seven_ids (H : Bytes → Bytes) (url : Bytes) (bs : List Branch) (es : List Entry)
    (rv : RevAttrs) (rl : RelAttrs) (m : RemAttrs) (e : ExtidAttrs) :
    originId H url = H url ∧ snapshotId H bs = H (snapshotIdManifest bs) ∧
    directoryId H es none = H (dirManifest es) ∧ revisionId H rv none = H (revisionManifest rv) ∧
    releaseId H rl none = H (releaseManifest rl) ∧ remId H m = H (remManifest m) ∧
    extidId H e = H (extidManifest e) := by
  simp [originId, snapshotId, directoryId, revisionId, releaseId, remId, extidId, mk_id, originManifest]

/-- non-vacuity: a concrete object with a needed raw manifest passes, with an unneeded one fails
    (H = identity is enough to see both branches) -/
example : check (fun b => b) (fun (a : Bytes) => a) (mk (fun b => b) (fun (a : Bytes) => a) [1] (some [2]) []) = .ok () := by
  simp [check, mk, computeHash, hashFromAttrs]
example : check (fun b => b) (fun (a : Bytes) => a) (mk (fun b => b) (fun (a : Bytes) => a) [1] (some [1]) []) = .error .valueError := by
  simp [check, mk, computeHash, hashFromAttrs]

end Swh.C07
