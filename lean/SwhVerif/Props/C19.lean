import SwhVerif.Lemmas.Dedup
import SwhVerif.Props.C02
/-!
# C19 — repairing directories with repeated entry names

`fromPossiblyDuplicated es` models `Directory.from_possibly_duplicated_entries(entries=es)`
(repaired version: replacement names are made unique with a counter).  `H : Bytes → Bytes` is the
uninterpreted hash.  All statements quantify over EVERY entry list: arbitrary multiplicities of
equal names, equal (name, type, target) triples, and names equal to another entry's would-be
replacement name.
-/
namespace Swh.C19
open Swh Swh.Dedup

/-- what `DirectoryEntry` and the archive guarantee about each entry -/
def WfEntries (es : List Entry) : Prop :=
  ∀ e ∈ es, bNUL ∉ e.name ∧ bSlash ∉ e.name ∧ e.target.length = 20

/-! ## 1. totality: the final constructor never raises -/

/-- **names are unique afterwards**, for every input -/
theorem names_unique (es : List Entry) :
    ((fromPossiblyDuplicated es).entries.map Entry.name).Nodup := by
  unfold fromPossiblyDuplicated
  split
  · simp only [List.map_map]
    exact (renameLoop_nodup (es.map Entry.name) (visitOrder es)
      (winnerNames_visitOrder_nodup es) (winnerNames_visitOrder_sub es)).1
  · rename_i h
    have := (validatorRaises_eq_false_iff [] es).mp (by simpa using h)
    exact this.1

/-- **the repair constructor is total**: the uniqueness validator of the final
    `Directory(entries=deduplicated_entries, …)` call does not raise -/
theorem repair_total (es : List Entry) :
    validatorRaises [] (fromPossiblyDuplicated es).entries = false :=
  (validatorRaises_eq_false_iff [] _).mpr ⟨names_unique es, fun _ _ h => by cases h⟩

/-! ## 3. every original entry is still there, at most renamed -/

/-- **entries preserved**: `pairs` lists the output entries next to their originals, which are
    exactly the input entries; type, target and permissions are untouched and a name is either
    kept or extended by a non-empty suffix. -/
theorem entries_preserved (es : List Entry) :
    ((fromPossiblyDuplicated es).pairs.map Prod.fst).Perm es ∧
    (fromPossiblyDuplicated es).pairs.map Prod.snd = (fromPossiblyDuplicated es).entries ∧
    ∀ o n, (o, n) ∈ (fromPossiblyDuplicated es).pairs →
      n.type = o.type ∧ n.target = o.target ∧ n.perms = o.perms ∧
      (n.name = o.name ∨ ∃ suffix, n.name = o.name ++ suffix ∧ suffix ≠ []) := by
  unfold fromPossiblyDuplicated
  split
  · refine ⟨?_, rfl, ?_⟩
    · simp only
      rw [renameLoop_map_fst]
      exact visitOrder_perm es
    · intro o n h
      obtain ⟨h1, h2, h3, h4⟩ := renameLoop_pair _ _ (o, n) h
      refine ⟨h1, h2, h3, ?_⟩
      rcases h4 with h4 | ⟨s, hs, hok⟩
      · exact Or.inl (congrArg Entry.name h4)
      · exact Or.inr ⟨s, hs, hok.1⟩
  · refine ⟨by simp [List.map_map, Function.comp_def], by simp [List.map_map, Function.comp_def], ?_⟩
    intro o n h
    simp only [List.mem_map, Prod.mk.injEq] at h
    obtain ⟨e, _, rfl, rfl⟩ := h
    exact ⟨rfl, rfl, rfl, Or.inl rfl⟩

/-- the suffix appended to a renamed entry contains no NUL and no `'/'` (it consists of `'_'`,
    lower-case hex digits and decimal digits) -/
theorem renamed_suffix (es : List Entry) :
    ∀ o n, (o, n) ∈ (fromPossiblyDuplicated es).pairs →
      n = o ∨ ∃ suffix, n.name = o.name ++ suffix ∧ suffix ≠ [] ∧
        bNUL ∉ suffix ∧ bSlash ∉ suffix := by
  unfold fromPossiblyDuplicated
  split
  · intro o n h
    rcases (renameLoop_pair _ _ (o, n) h).2.2.2 with h4 | ⟨s, hs, hok⟩
    · exact Or.inl h4
    · exact Or.inr ⟨s, hs, hok⟩
  · intro o n h
    simp only [List.mem_map, Prod.mk.injEq] at h
    obtain ⟨e, _, rfl, rfl⟩ := h
    exact Or.inl rfl

/-- every output entry comes from an input entry (through `pairs`) -/
theorem entries_from_pairs (es : List Entry) :
    ∀ n ∈ (fromPossiblyDuplicated es).entries,
      ∃ o ∈ es, (o, n) ∈ (fromPossiblyDuplicated es).pairs := by
  intro n hn
  obtain ⟨hperm, hsnd, _⟩ := entries_preserved es
  rw [← hsnd] at hn
  obtain ⟨⟨o, n'⟩, hp, rfl⟩ := List.mem_map.mp hn
  exact ⟨o, hperm.mem_iff.mp (List.mem_map.mpr ⟨(o, n'), hp, rfl⟩), hp⟩

/-- **new names are admissible**: no NUL and no `'/'` in any output name when the input names
    have none -/
theorem names_clean (es : List Entry)
    (h : ∀ e ∈ es, bNUL ∉ e.name ∧ bSlash ∉ e.name) :
    ∀ n ∈ (fromPossiblyDuplicated es).entries, bNUL ∉ n.name ∧ bSlash ∉ n.name := by
  intro n hn
  obtain ⟨o, ho, hp⟩ := entries_from_pairs es n hn
  rcases renamed_suffix es o n hp with rfl | ⟨s, hs, _, h0, h1⟩
  · exact h _ ho
  · rw [hs]
    simp only [List.mem_append, not_or]
    exact ⟨⟨(h o ho).1, h0⟩, ⟨(h o ho).2, h1⟩⟩

/-- the output is well formed when the input is -/
theorem wf_preserved (es : List Entry) (hw : WfEntries es) :
    WfEntries (fromPossiblyDuplicated es).entries := by
  intro n hn
  have hc := names_clean es (fun e he => ⟨(hw e he).1, (hw e he).2.1⟩) n hn
  obtain ⟨o, ho, hp⟩ := entries_from_pairs es n hn
  have := (entries_preserved es).2.2 o n hp
  exact ⟨hc.1, hc.2, by rw [this.2.1]; exact (hw o ho).2.2⟩

/-! ## 2. the flag -/

/-- **the flag is true exactly when some name is repeated** -/
theorem flag_iff_dup (es : List Entry) :
    (fromPossiblyDuplicated es).flag = true ↔ ¬ (es.map Entry.name).Nodup := by
  rw [← validatorRaises_iff]
  unfold fromPossiblyDuplicated
  split <;> simp_all

/-! ## 4. the most important entry keeps the name -/

/-- **winner keeps its name**: for every name of the input, one entry of that name is output
    unchanged, and it has the most important type (rev, then dir, then file) among the entries
    of that name -/
theorem winner_keeps_name (es : List Entry) (x : Bytes) (hx : x ∈ es.map Entry.name) :
    ∃ o n, (o, n) ∈ (fromPossiblyDuplicated es).pairs ∧ o.name = x ∧ n = o ∧
      ∀ e ∈ es, e.name = x → rank o.type ≤ rank e.type := by
  obtain ⟨w, rest, hg, hwx, hmin⟩ := group_head es x hx
  have hwes : w ∈ es := group_mem es x w (by rw [hg]; exact List.mem_cons_self)
  refine ⟨w, w, ?_, hwx, rfl, hmin⟩
  unfold fromPossiblyDuplicated
  split
  · exact renameLoop_winner _ _ w (winner_mem_visitOrder es x hx w rest hg)
  · exact List.mem_map.mpr ⟨w, hwes, rfl⟩

/-! ## 5. the id is the hash of the original manifest -/

/-- **id of the original**: when a name was repeated the raw manifest is the manifest of the
    original entry list (stable sort of the unrepaired list), verbatim, and the id is its hash -/
theorem id_of_original (H : Bytes → Bytes) (es : List Entry)
    (h : (fromPossiblyDuplicated es).flag = true) :
    (fromPossiblyDuplicated es).rawManifest = some (dirManifest es) ∧
    (fromPossiblyDuplicated es).id H = H (dirManifest es) := by
  unfold Repaired.id
  unfold fromPossiblyDuplicated at h ⊢
  split
  · exact ⟨rfl, rfl⟩
  · rename_i hv
    simp [hv] at h

/-! ## 6. without repeated names nothing happens -/

/-- **no duplicate ⇒ the ordinary directory, unchanged** -/
theorem no_dup_unchanged (H : Bytes → Bytes) (es : List Entry) (h : (es.map Entry.name).Nodup) :
    fromPossiblyDuplicated es =
      { flag := false, entries := es, rawManifest := none, pairs := es.map (fun e => (e, e)) } ∧
    (fromPossiblyDuplicated es).id H = H (dirManifest es) := by
  have hv : validatorRaises [] es = false :=
    (validatorRaises_eq_false_iff [] es).mpr ⟨h, fun _ _ hm => by cases hm⟩
  have : fromPossiblyDuplicated es =
      { flag := false, entries := es, rawManifest := none, pairs := es.map (fun e => (e, e)) } := by
    unfold fromPossiblyDuplicated; simp [hv]
  exact ⟨this, by rw [this]; rfl⟩

/-- in both cases the id is the hash of the manifest of the ORIGINAL entries -/
theorem id_eq (H : Bytes → Bytes) (es : List Entry) :
    (fromPossiblyDuplicated es).id H = H (dirManifest es) := by
  by_cases h : (es.map Entry.name).Nodup
  · exact (no_dup_unchanged H es h).2
  · exact (id_of_original H es ((flag_iff_dup es).mpr h)).2

/-! ## 7. the raw manifest is genuinely needed, and `check()` passes -/

/-- **the repaired entries have a different manifest**: both bodies decode; the repaired one
    has pairwise distinct names and the original one has not -/
theorem repaired_manifest_ne (es : List Entry) (hw : WfEntries es)
    (h : (fromPossiblyDuplicated es).flag = true) :
    dirManifest (fromPossiblyDuplicated es).entries ≠ dirManifest es := by
  intro heq
  have hw' := wf_preserved es hw
  have hperm := C02.dirManifest_injective _ _
    (fun e he => (hw' e he).1) (fun e he => (hw' e he).2.2)
    (fun e he => (hw e he).1) (fun e he => (hw e he).2.2) heq
  have hnames := hperm.map (fun t : Nat × Bytes × Bytes => t.2.1)
  simp only [List.map_map] at hnames
  have hfun : ((fun t : Nat × Bytes × Bytes => t.2.1) ∘ Entry.triple) = Entry.name := by
    funext e; rfl
  rw [hfun] at hnames
  exact (flag_iff_dup es).mp h (hnames.nodup (names_unique es))

/-- **integrity check passes** (`HashableObjectWithManifest.check`): the id is the hash that
    `compute_hash` returns, and when a raw manifest is stored it is not redundant — provided `H`
    does not collide on the two (different, by `repaired_manifest_ne`) manifests. -/
theorem repaired_check_ok (H : Bytes → Bytes) (es : List Entry)
    (hH : (fromPossiblyDuplicated es).flag = true →
      H (dirManifest (fromPossiblyDuplicated es).entries) ≠ H (dirManifest es)) :
    (fromPossiblyDuplicated es).checkOk H ((fromPossiblyDuplicated es).id H) := by
  refine ⟨rfl, ?_⟩
  by_cases h : (es.map Entry.name).Nodup
  · left; rw [(no_dup_unchanged H es h).1]
  · right
    have hf := (flag_iff_dup es).mpr h
    rw [id_eq]
    exact fun hc => hH hf hc.symm

/-- corollary: for an injective `H` and well-formed entries the check always passes -/
theorem repaired_check_ok_of_injective (H : Bytes → Bytes) (hinj : Function.Injective H)
    (es : List Entry) (hw : WfEntries es) :
    (fromPossiblyDuplicated es).checkOk H ((fromPossiblyDuplicated es).id H) :=
  repaired_check_ok H es (fun hf hc => repaired_manifest_ne es hw hf (hinj hc))

/-! ## non-vacuity -/

def tgt (n : Nat) : Bytes := List.replicate 20 (UInt8.ofNat n)
def nameA : Bytes := asc ['a']

/-- three entries named `a`, two of which share a target: the shipped code raises here -/
def exSharedTarget : List Entry :=
  [⟨nameA, .file, 33188, tgt 1⟩, ⟨nameA, .file, 33188, tgt 2⟩, ⟨nameA, .file, 33261, tgt 2⟩]

example : WfEntries exSharedTarget ∧ (fromPossiblyDuplicated exSharedTarget).flag = true ∧
    (fromPossiblyDuplicated exSharedTarget).entries.map Entry.name =
      [asc ['a'], asc ['a','_','0','2','0','2','0','2','0','2','0','2'],
       asc ['a','_','0','2','0','2','0','2','0','2','0','2','_','1']] := by
  refine ⟨?_, by decide, ?_⟩
  · unfold WfEntries exSharedTarget
    simp [nameA, asc, tgt, bNUL, bSlash]
  · -- (`dec` is defined by well-founded recursion, which `decide` does not unfold)
    simp [exSharedTarget, fromPossiblyDuplicated, validatorRaises, visitOrder, firstNames, group,
      bucket, tagGroup, renameLoop, freshName, findFresh, candidate, renamePrefix, hexLower,
      hexDigit, dec, natBase, toBaseRev, digitByte, nameA, tgt, asc, bUnderscore]

/-- a replacement name equal to another entry's name -/
def exNameClash : List Entry :=
  [⟨nameA, .file, 33188, tgt 1⟩, ⟨nameA, .file, 33188, tgt 2⟩,
   ⟨asc ['a','_','0','2','0','2','0','2','0','2','0','2'], .file, 33261, tgt 3⟩]

example : (fromPossiblyDuplicated exNameClash).flag = true ∧
    (fromPossiblyDuplicated exNameClash).entries.map Entry.name =
      [asc ['a'], asc ['a','_','0','2','0','2','0','2','0','2','0','2','_','1'],
       asc ['a','_','0','2','0','2','0','2','0','2','0','2']] := by
  refine ⟨by decide, ?_⟩
  simp [exNameClash, fromPossiblyDuplicated, validatorRaises, visitOrder, firstNames, group,
    bucket, tagGroup, renameLoop, freshName, findFresh, candidate, renamePrefix, hexLower,
    hexDigit, dec, natBase, toBaseRev, digitByte, nameA, tgt, asc, bUnderscore]

/-- all three types under one name: the rev wins, then dir, then file -/
def exAllTypes : List Entry :=
  [⟨nameA, .file, 33188, tgt 1⟩, ⟨nameA, .dir, 16384, tgt 2⟩, ⟨nameA, .rev, 57344, tgt 3⟩]

example : (fromPossiblyDuplicated exAllTypes).flag = true ∧
    (fromPossiblyDuplicated exAllTypes).entries.map (fun e => (e.name, e.type)) =
      [(asc ['a'], .rev), (asc ['a','_','0','2','0','2','0','2','0','2','0','2'], .dir),
       (asc ['a','_','0','1','0','1','0','1','0','1','0','1'], .file)] := by
  exact ⟨by decide, by decide⟩

/-- the no-duplicate case is inhabited too -/
example : (fromPossiblyDuplicated [⟨nameA, .file, 33188, tgt 1⟩]).flag = false := by decide

end Swh.C19
