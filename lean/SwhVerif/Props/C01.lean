import SwhVerif.Lemmas.Hash
/-!
# C01 — Content hashes: every route gives the git blob id and the same digests

A hashlib object is the byte stream fed to it; `D algo bytes` is the (uninterpreted) digest.
The theorems say *which bytes reach which hasher*: for every data, every chunking, every
requested name set and every entry point of the model, hasher `a` has been fed exactly
`prefix a len ++ data`, the tracked length is `len data`, and the `sha1_git` stream is git's
blob object.  hashlib's concatenativity and `copy()` are the model's contract (trusted base).
-/
namespace Swh.C01
open Swh Swh.Hash

/-- digests reported by `MultiHash.digest()` for name `n` -/
def digestOf (D : Name → Bytes → Bytes) (h : Heap) (m : MH) (n : Name) : Option Bytes :=
  (fedOf h m n).map (D (baseName n))

/-- what must be hashed for name `n` and data of length `len` -/
def expectedStream (n : Name) (data : Bytes) : Bytes :=
  (if isGit n then gitHeader blobTy data.length else []) ++ data

/-- the empty heap with the empty MultiHash is well formed -/
theorem wf_empty (h : Heap) : WfMH h ⟨[], none⟩ :=
  ⟨(fun _ he => by cases he), List.nodup_nil, List.nodup_nil⟩

/-- **Chunking is irrelevant** (empty chunks included): after any chunk sequence every hasher
    has been fed the concatenation, and the tracked length is its length. -/
theorem update_chunks (h : Heap) (m : MH) (chunks : List Bytes) (hw : WfMH h m) (n : Name) :
    fedOf (updates h m chunks).1 (updates h m chunks).2 n = (fedOf h m n).map (· ++ chunks.flatten) ∧
    (updates h m chunks).2.length = m.length.map (· + chunks.flatten.length) :=
  ⟨updates_fed h m chunks hw n, updates_length h m chunks⟩

/-- two chunkings of the same bytes are indistinguishable -/
theorem chunking_irrelevant (h : Heap) (m : MH) (c1 c2 : List Bytes) (hw : WfMH h m)
    (heq : c1.flatten = c2.flatten) (n : Name) :
    fedOf (updates h m c1).1 (updates h m c1).2 n = fedOf (updates h m c2).1 (updates h m c2).2 n ∧
    (updates h m c1).2.length = (updates h m c2).2.length := by
  rw [updates_fed h m c1 hw, updates_fed h m c2 hw, updates_length, updates_length, heq]
  exact ⟨rfl, rfl⟩

/-- **The read loop**: reading a file object until the first empty read feeds exactly the
    non-empty reads before it (short reads allowed). -/
theorem fromFile_reads (h : Heap) (m : MH) (chunks rest : List Bytes) (hw : WfMH h m)
    (hne : ∀ c ∈ chunks, c ≠ []) (n : Name) :
    fedOf (fromReads h m (chunks ++ [] :: rest)).1 (fromReads h m (chunks ++ [] :: rest)).2 n
      = (fedOf h m n).map (· ++ chunks.flatten) := by
  rw [fromReads_eq h m chunks rest hne]; exact updates_fed h m chunks hw n

/-- **Block reads reassemble the data**: for a positive block size the successive `read(bs)`
    results are non-empty, at most `bs` long, and concatenate to the data. -/
theorem blocks_ok (bs : Nat) (hbs : 0 < bs) (data : Bytes) :
    (blocks bs (data.length + 1) data).flatten = data ∧
    (∀ c ∈ blocks bs (data.length + 1) data, c ≠ [] ∧ c.length ≤ bs) :=
  ⟨blocks_flatten bs hbs _ data (by omega),
   fun c hc => ⟨blocks_nonempty bs hbs _ data c hc, blocks_size bs _ data c hc⟩⟩

/-- the live block size is positive (regenerated from `hashutil.HASH_BLOCK_SIZE`) -/
theorem blockSize_pos : 0 < Gen.hashBlockSize := by decide

/-- **Every route agrees**: hashing `data` through `from_data` (hence through the model, on-disk
    and command-line content constructors, which are compositions of it) with any set of
    known names feeds hasher `n` exactly `expectedStream n data` and reports `len data`. -/
theorem routes_agree (h : Heap) (data : Bytes) (names : List Name)
    (hk : ∀ n ∈ names, n ≠ "length" → isKnown n = true)
    (hnd : (names.filter (· ≠ "length")).Nodup) :
    ∃ h' m, fromData h data names = .ok (h', m) ∧
      (∀ n ∈ names, n ≠ "length" → fedOf h' m n = some (expectedStream n data)) ∧
      m.length = (if "length" ∈ names then some data.length else none) ∧
      m.state.map (·.1) = names.filter (· ≠ "length") := by
  have hok : ∀ n ∈ names, n ≠ "length" → ∃ pre, newHash n (some data.length) = .ok pre := by
    intro n hn hl
    unfold newHash
    simp only [hk n hn hl, Bool.not_true, Bool.false_eq_true, if_false]
    split <;> exact ⟨_, rfl⟩
  obtain ⟨h1, m1, he, hwf, hst, hlen, _, hnew⟩ :=
    mkMHAux_spec (some data.length) names h ⟨[], none⟩ (wf_empty h) hok hnd
      (fun _ _ _ e he => by cases he)
  unfold fromData mkMH
  rw [he]
  simp only
  have hb := blocks_ok Gen.hashBlockSize blockSize_pos data
  have hreads : fileReads Gen.hashBlockSize data
      = blocks Gen.hashBlockSize (data.length + 1) data ++ [] :: [] := rfl
  have hres := fromReads_eq h1 m1 (blocks Gen.hashBlockSize (data.length + 1) data) []
    (fun c hc => (hb.2 c hc).1)
  rw [hreads, hres]
  refine ⟨(updates h1 m1 (blocks Gen.hashBlockSize (data.length + 1) data)).1,
    (updates h1 m1 (blocks Gen.hashBlockSize (data.length + 1) data)).2, rfl, ?_, ?_, ?_⟩
  · intro n hn hl
    obtain ⟨pre, hpre, hfed⟩ := hnew n hn hl
    rw [updates_fed _ _ _ hwf, hfed, hb.1]
    simp only [Option.map_some, expectedStream]
    unfold newHash at hpre
    simp only [hk n hn hl, Bool.not_true, Bool.false_eq_true, if_false] at hpre
    split at hpre
    · rename_i hg; simp only [hg, if_true]; cases hpre; rfl
    · rename_i hg; simp only [hg, Bool.false_eq_true, if_false]; cases hpre; rfl
  · rw [updates_length, hlen, hb.1]
    split <;> simp
  · rw [updates_state, hst]; simp

/-- **sha1_git is git's blob id**: the stream of a git-flavoured name is git's blob object
    `"blob <len>\0" ++ data` (written here as the separate spec `gitBlob`). -/
theorem git_stream_is_blob (n : Name) (data : Bytes) (hg : isGit n = true) :
    expectedStream n data = gitBlob data := by
  simp [expectedStream, hg, gitBlob, gitObject]

theorem plain_stream_is_data (n : Name) (data : Bytes) (hg : isGit n = false) :
    expectedStream n data = data := by
  simp [expectedStream, hg]

/-- the default algorithms are known, and `sha1_git` is the git-flavoured one among them -/
theorem default_names :
    (∀ n ∈ Gen.defaultAlgorithms, isKnown n = true) ∧
    Gen.defaultAlgorithms.filter isGit = ["sha1_git"] ∧ baseName "sha1_git" = "sha1" := by decide

/-- **Construction fails exactly for an unknown name or a git name without length** -/
theorem new_error_iff (n : Name) (len : Option Nat) :
    (∃ e, newHash n len = .error e) ↔ (isKnown n = false ∨ (isGit n = true ∧ len = none)) := by
  unfold newHash
  cases hk : isKnown n <;> cases hg : isGit n <;> cases len <;> simp

theorem mk_error (h : Heap) (names : List Name) (len : Option Nat)
    (hbad : ∃ n ∈ names, n ≠ "length" ∧ (isKnown n = false ∨ (isGit n = true ∧ len = none))) :
    ∃ e, mkMH h names len = .error e := by
  obtain ⟨n, hn, hl, hb⟩ := hbad
  exact mkMHAux_error len names h _ ⟨n, hn, hl, (new_error_iff n len).mpr hb⟩

/-- **A hasher copied in mid-stream is independent and continues from the same point**: after
    `copy`, for ANY interleaving of updates on the original and on the copy, each one's stream
    is the common prefix followed by its own updates only (and so are the tracked lengths). -/
theorem copy_independent (h : Heap) (m : MH) (hw : WfMH h m) (ops : List (Bool × Bytes)) (n : Name) :
    let hc := copy h m
    let r := runOps hc.1 m hc.2 ops
    fedOf r.1 r.2.1 n = (fedOf h m n).map (· ++ (chunksOf true ops).flatten) ∧
    fedOf r.1 r.2.2 n = (fedOf h m n).map (· ++ (chunksOf false ops).flatten) ∧
    r.2.1.length = m.length.map (· + (chunksOf true ops).flatten.length) ∧
    r.2.2.length = m.length.map (· + (chunksOf false ops).flatten.length) := by
  obtain ⟨hwo, hwc, hd1, hd2, hl, hf1, hf2⟩ := copy_spec h m hw
  have := runOps_spec ops (copy h m).1 m (copy h m).2 hwo hwc hd1 hd2 n
  simp only
  rw [hf1 n, hf2 n, hl] at this
  exact this

/-- non-vacuity: the default name set plus `length` satisfies the hypotheses of `routes_agree` -/
example : (∀ n ∈ ("length" :: Gen.defaultAlgorithms), n ≠ "length" → isKnown n = true) ∧
    (("length" :: Gen.defaultAlgorithms).filter (· ≠ "length")).Nodup := by decide

end Swh.C01
