import SwhVerif.Model.Values
import SwhVerif.Lemmas.Bytes
import SwhVerif.Lemmas.Directory
/-!
# C11 — Model values are immutable and behave as values (equality, hashing)
The part a Lean model can carry: order-free equality/hash of frozen mappings, equality ⇒ equal
hash for attrs-generated methods, and isolation of an object from later mutation of the
container it was built from *when the constructor copies*.  "Assigning or deleting an attribute
raises" is a fact about CPython/attrs objects that no model of ours can exhibit: it is carried by
the exhaustive run-time tie (class × field × channel), see harness/c11.py — **partial**.
-/
namespace Swh.C11
open Swh Swh.Values

/-- **Frozen mappings compare and hash independently of insertion order** -/
theorem frozen_eq_hash {V} (hashTuple : Items V → Nat) (a b : Items V) (hp : a.Perm b)
    (hk : (a.map (·.1)).Nodup) : mapEq a b ∧ mapHash hashTuple a = mapHash hashTuple b := by
  refine ⟨hp, ?_⟩
  unfold mapHash
  rw [sortByKey_perm_unique (fun kv : Bytes × V => kv.1) a b hp (nodup_map_inj (fun kv : Bytes × V => kv.1) a hk)]

/-- equal mappings have equal hashes (the `Mapping` contract used by sets and dict keys) -/
theorem frozen_eq_implies_hash_eq {V} (hashTuple : Items V → Nat) (a b : Items V)
    (heq : mapEq a b) (hk : (a.map (·.1)).Nodup) : mapHash hashTuple a = mapHash hashTuple b :=
  (frozen_eq_hash hashTuple a b heq hk).2

/-- **Objects that compare equal have equal hashes**: both methods are generated from the same
    `eq` fields, so fields excluded from equality are excluded from the hash. -/
theorem eq_implies_hash_eq {V} [DecidableEq V] (hashTuple : List V → Nat) (cls : String)
    (a b : Obj V) (h : objEq cls a b = true) : objHash hashTuple cls a = objHash hashTuple cls b := by
  unfold objHash
  congr 1
  unfold objEq at h
  rw [List.all_eq_true] at h
  apply List.map_congr_left
  intro f hf
  simpa using h f hf

/-- two objects built from the same arguments are equal -/
theorem same_args_equal {V} [DecidableEq V] (cls : String) (a : Obj V) : objEq cls a a = true := by
  simp [objEq]

/-- the fields attrs leaves out of comparison, per class (regenerated on every run): a change
    of an `eq` flag in the code changes this table and breaks the obligation -/
theorem eq_flags_table :
    eqFields "Person" = ["fullname"] ∧
    "ctime" ∉ eqFields "Content" ∧ "get_data" ∉ eqFields "Content" ∧ "data" ∈ eqFields "Content" ∧
    "ctime" ∉ eqFields "SkippedContent" ∧
    eqFields "Timestamp" = ["seconds", "microseconds"] ∧
    eqFields "TimestampWithTimezone" = ["timestamp", "offset_bytes"] ∧
    eqFields "Snapshot" = ["branches", "id"] ∧
    eqFields "Directory" = ["entries", "id", "raw_manifest"] ∧
    eqFields "CoreSWHID" = ["namespace", "scheme_version", "object_id", "object_type"] := by
  decide

/-- **Copying constructors isolate the object**: when the constructor copies its container
    argument, no later sequence of mutations of containers the caller can reach changes what
    the object reads. -/
theorem construct_copy_isolated {V} (s : Store V) (arg : Loc)
    (ops : List (Loc × (Items V → Items V))) (hops : ∀ op ∈ ops, op.1 < s.next) :
    let (s1, obj) := construct .copy s arg
    observe (mutateAll s1 ops) obj = s.cells arg := by
  simp only [construct]
  have key : ∀ (t : Store V), t.cells s.next = s.cells arg →
      (mutateAll t ops).cells s.next = s.cells arg := by
    intro t ht
    induction ops generalizing t with
    | nil => simpa [mutateAll] using ht
    | cons op ops ih =>
      simp only [mutateAll, List.foldl_cons]
      apply ih (fun o ho => hops o (by simp [ho]))
      have hlt : op.1 < s.next := hops op (by simp)
      have hne : s.next ≠ op.1 := fun h => by rw [h] at hlt; exact Nat.lt_irrefl _ hlt
      simp [mutate, hne, ht]
  exact key _ (by simp)

/-- … whereas an aliasing constructor does not (the defect the harness demonstrates on the
    shipped `ImmutableDict`, repaired by copying) -/
theorem construct_alias_not_isolated :
    ∃ (s : Store Nat) (arg : Loc) (op : Loc × (Items Nat → Items Nat)), op.1 < s.next ∧
      observe (mutateAll (construct .alias s arg).1 [op]) (construct .alias s arg).2 ≠ s.cells arg := by
  refine ⟨⟨fun _ => [], 1⟩, 0, (0, fun _ => [([], 1)]), by decide, ?_⟩
  simp [construct, mutateAll, mutate, observe]

end Swh.C11
