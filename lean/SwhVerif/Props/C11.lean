import SwhVerif.Model.Values
import SwhVerif.Lemmas.Bytes
import SwhVerif.Lemmas.Directory
import SwhVerif.Lemmas.Frozen
/-!
# C11 — Model values are immutable and behave as values (equality, hashing)
The part a Lean model can carry: order-free equality/hash of frozen mappings, equality ⇒ equal
hash for attrs-generated methods, and isolation of an object from later mutation of the
container it was built from *when the constructor copies*.  "Assigning or deleting an attribute
raises" is a fact about CPython/attrs objects that no model of ours can exhibit: it is carried by
the exhaustive run-time tie (class × field × channel), see harness/c11.py — **partial**.
-/
namespace Swh.C11
open Swh Swh.Values

/-- **Frozen mappings compare and hash independently of insertion order** -/
theorem frozen_eq_hash {V} (hashTuple : Items V → Nat) (a b : Items V) (hp : a.Perm b)
    (hk : (a.map (·.1)).Nodup) : mapEq a b ∧ mapHash hashTuple a = mapHash hashTuple b := by
  refine ⟨hp, ?_⟩
  unfold mapHash
  rw [sortByKey_perm_unique (fun kv : Bytes × V => kv.1) a b hp (nodup_map_inj (fun kv : Bytes × V => kv.1) a hk)]

/-- equal mappings have equal hashes (the `Mapping` contract used by sets and dict keys) -/
theorem frozen_eq_implies_hash_eq {V} (hashTuple : Items V → Nat) (a b : Items V)
    (heq : mapEq a b) (hk : (a.map (·.1)).Nodup) : mapHash hashTuple a = mapHash hashTuple b :=
  (frozen_eq_hash hashTuple a b heq hk).2

/-- **Objects that compare equal have equal hashes**: both methods are generated from the same
    `eq` fields, so fields excluded from equality are excluded from the hash. -/
theorem eq_implies_hash_eq {V} [DecidableEq V] (hashTuple : List V → Nat) (cls : String)
    (a b : Obj V) (h : objEq cls a b = true) : objHash hashTuple cls a = objHash hashTuple cls b := by
  unfold objHash
  congr 1
  unfold objEq at h
  rw [List.all_eq_true] at h
  apply List.map_congr_left
  intro f hf
  simpa using h f hf

/-- two objects built from the same arguments are equal -/
theorem same_args_equal {V} [DecidableEq V] (cls : String) (a : Obj V) : objEq cls a a = true := by
  simp [objEq]

/-- the fields attrs leaves out of comparison, per class (regenerated on every run): a change
    of an `eq` flag in the code changes this table and breaks the obligation -/
theorem eq_flags_table :
    eqFields "Person" = ["fullname"] ∧
    "ctime" ∉ eqFields "Content" ∧ "get_data" ∉ eqFields "Content" ∧ "data" ∈ eqFields "Content" ∧
    "ctime" ∉ eqFields "SkippedContent" ∧
    eqFields "Timestamp" = ["seconds", "microseconds"] ∧
    eqFields "TimestampWithTimezone" = ["timestamp", "offset_bytes"] ∧
    eqFields "Snapshot" = ["branches", "id"] ∧
    eqFields "Directory" = ["entries", "id", "raw_manifest"] ∧
    eqFields "CoreSWHID" = ["namespace", "scheme_version", "object_id", "object_type"] := by
  decide

/-- **Copying constructors isolate the object**: when the constructor copies its container
    argument, no later sequence of mutations of containers the caller can reach changes what
    the object reads. -/
theorem construct_copy_isolated {V} (s : Store V) (arg : Loc)
    (ops : List (Loc × (Items V → Items V))) (hops : ∀ op ∈ ops, op.1 < s.next) :
    let (s1, obj) := construct .copy s arg
    observe (mutateAll s1 ops) obj = s.cells arg := by
  simp only [construct]
  have key : ∀ (t : Store V), t.cells s.next = s.cells arg →
      (mutateAll t ops).cells s.next = s.cells arg := by
    intro t ht
    induction ops generalizing t with
    | nil => simpa [mutateAll] using ht
    | cons op ops ih =>
      simp only [mutateAll, List.foldl_cons]
      apply ih (fun o ho => hops o (by simp [ho]))
      have hlt : op.1 < s.next := hops op (by simp)
      have hne : s.next ≠ op.1 := fun h => by rw [h] at hlt; exact Nat.lt_irrefl _ hlt
      simp [mutate, hne, ht]
  exact key _ (by simp)

/-- … whereas an aliasing constructor does not (the defect the harness demonstrates on the
    shipped `ImmutableDict`, repaired by copying) -/
theorem construct_alias_not_isolated :
    ∃ (s : Store Nat) (arg : Loc) (op : Loc × (Items Nat → Items Nat)), op.1 < s.next ∧
      observe (mutateAll (construct .alias s arg).1 [op]) (construct .alias s arg).2 ≠ s.cells arg := by
  refine ⟨⟨fun _ => [], 1⟩, 0, (0, fun _ => [([], 1)]), by decide, ?_⟩
  simp [construct, mutateAll, mutate, observe]

/-! ## The frozen mapping in a heap the caller keeps mutating

Heap model of `swh.model.collections.ImmutableDict` (`Swh.Frozen`, SwhVerif/Model/Frozen.lean):
caller-owned dictionaries and lists, library-owned (private) ones, the three construction
routes, `copy_pop` and `__getitem__`, under the copying discipline of the code as it is
(`deep`) — and, for the negative results, under `shallow` and `alias`.
`step = stepD .deep`, `run = runD .deep`. -/
section FrozenHeap
open Swh.Frozen

/-- the invariant (private locations are allocated; the `_data` of every frozen object and
    every list it refers to are private) holds of the empty heap … -/
theorem inv_init : Inv init := inv_init_heap

/-- … and is preserved by every operation, caller's or library's -/
theorem inv_step (h : Heap) (hinv : Inv h) (op : Op) : Inv (step h op).1 := (step_ok h hinv op).2

theorem inv_run (h : Heap) (hinv : Inv h) (ops : List Op) : Inv (run h ops) := (run_ok h hinv ops).2

/-- every reachable heap satisfies the invariant -/
theorem inv_reachable (pre : List Op) : Inv (run init pre) := inv_run init inv_init pre

/-- **No history of operations changes what a frozen mapping contains**: whatever the caller
    does to the containers it can name and whatever else the library is asked to build, in any
    interleaving and for histories of any length, the resolved items of every frozen object that
    exists stay what they were. -/
theorem frozen_never_changes (h : Heap) (hinv : Inv h) (ops : List Op) (i : Nat)
    (hi : i < h.frozen.length) : view (run h ops) i = view h i :=
  view_of_frame hinv (run_ok h hinv ops).1 i hi

/-- the same, for heaps reachable from the empty heap: once an object exists (after `pre`), no
    continuation `ops` changes its view -/
theorem frozen_never_changes_reachable (pre ops : List Op) (i : Nat)
    (hi : i < (run init pre).frozen.length) :
    view (run init (pre ++ ops)) i = view (run init pre) i := by
  have : run init (pre ++ ops) = run (run init pre) ops := by simp [run, runD, List.foldl_append]
  rw [this]
  exact frozen_never_changes _ (inv_reachable pre) ops i hi

/-- **route 1** (`ImmutableDict(d)`, `d` a dict): the new object's view is the resolved items of
    `src` at that moment -/
theorem fromDict_view (h : Heap) (src : Frozen.Loc) (hs : src < h.next) (hd : h.isDict src = true) :
    (step h (.fromDict src)).2 = .obj h.frozen.length ∧
    view (step h (.fromDict src)).1 h.frozen.length = some (resolve h.lists (h.dicts src)) := by
  simp only [step, stepD, hs, hd, decide_true, Bool.and_self, if_true, copyDict, true_and]
  rw [view_record_new _ _ _ (by rw [(deepCopyDict_ext h src).frozen_eq]), deepCopyDict_resolve]

/-- **route 3** (`ImmutableDict(pairs)`): the view is the resolved `dict(pairs)` — position of the
    first occurrence of each key, value of the last (`keys_ofPairs`, `lookup_ofPairs`) -/
theorem fromPairs_view (h : Heap) (ps : List (Key × Val)) :
    (step h (.fromPairs ps)).2 = .obj h.frozen.length ∧
    view (step h (.fromPairs ps)).1 h.frozen.length = some (resolve h.lists (ofPairs ps)) := by
  simp only [step, stepD, copyDict, true_and]
  rw [view_record_new _ _ _ (by rw [(deepCopyDict_ext _ _).frozen_eq]; rfl), deepCopyDict_resolve]
  simp

/-- **route 2** (`ImmutableDict(other)`): the new object's view equals the old object's view -/
theorem fromFrozen_view (h : Heap) (i : Nat) (hi : i < h.frozen.length) :
    (step h (.fromFrozen i)).2 = .obj h.frozen.length ∧
    view (step h (.fromFrozen i)).1 h.frozen.length = view h i ∧
    view (step h (.fromFrozen i)).1 i = view h i := by
  have hd : h.frozen[i]? = some h.frozen[i] := List.getElem?_eq_getElem hi
  simp only [step, stepD, hd, true_and]
  refine ⟨?_, ?_⟩
  · rw [view_record_new _ _ _ rfl]; simp [view, hd]
  · simp [view, List.getElem?_append_left hi]

/-- `copy_pop`, the part that needs no invariant: the popped value is the resolved lookup of `k`
    (none when absent) and the new object's view is the old view with `k` erased, the order of
    the rest kept -/
theorem copyPop_result (h : Heap) (i : Nat) (k : Key) (v : List (Key × RVal))
    (hv : view h i = some v) :
    (step h (.copyPop i k)).2 = .popped h.frozen.length (lookup k v) ∧
    view (step h (.copyPop i k)).1 h.frozen.length = some (delItem k v) := by
  obtain ⟨d, hd, rfl⟩ := view_eq_some hv
  simp only [step, stepD, hd, copyDict]
  refine ⟨?_, ?_⟩
  · rw [lookup_resolve, deepCopyDict_resolve]
  · rw [view_record_new _ _ _ (by rw [(deepCopyDict_ext _ _).frozen_eq]; simp [(deepCopyDict_ext h d).frozen_eq]),
      deepCopyDict_resolve]
    simp only [setDict_lists, setDict_dicts, if_true]
    rw [delItem_resolve, deepCopyDict_resolve]

/-- **`copy_pop`**: popped value, view of the new object, and the receiver is unchanged -/
theorem copyPop_spec (h : Heap) (hinv : Inv h) (i : Nat) (k : Key) (v : List (Key × RVal))
    (hv : view h i = some v) :
    (step h (.copyPop i k)).2 = .popped h.frozen.length (lookup k v) ∧
    view (step h (.copyPop i k)).1 h.frozen.length = some (delItem k v) ∧
    view (step h (.copyPop i k)).1 i = view h i :=
  ⟨(copyPop_result h i k v hv).1, (copyPop_result h i k v hv).2,
    view_of_frame hinv (step_ok h hinv (.copyPop i k)).1 i (view_lt hv)⟩

/-- the popped key is gone from the new object and every other key reads as before (the
    dictionary in a frozen object has distinct keys) -/
theorem copyPop_lookup (v : List (Key × RVal)) (k k2 : Key) (hnd : (v.map (·.1)).Nodup) :
    lookup k2 (delItem k v) = if k2 = k then none else lookup k2 v := by
  by_cases hk : k2 = k
  · subst hk; simp [lookup_delItem_self _ _ hnd]
  · simp [hk, lookup_delItem_ne hk]

/-- the items of a frozen object have distinct keys, after any history under any discipline (so
    `copyPop_lookup` applies to every view) -/
theorem frozen_keys_distinct (disc : Discipline) (ops : List Op) (i : Nat) (v : List (Key × RVal))
    (hv : view (runD disc init ops) i = some v) : (v.map (·.1)).Nodup :=
  view_keys_nodup (keysNodup_runD disc init keysNodup_init ops) hv

/-- **`__getitem__` is pure**, under every discipline -/
theorem lookup_pure (disc : Discipline) (h : Heap) (i : Nat) (k : Key) :
    (stepD disc h (.lookup i k)).1 = h := by
  simp only [stepD]; split <;> rfl

/-- … and returns the resolved value of the key in the view (none when absent) -/
theorem lookup_value (disc : Discipline) (h : Heap) (i : Nat) (k : Key) (v : List (Key × RVal))
    (hv : view h i = some v) : (stepD disc h (.lookup i k)).2 = .value (lookup k v) := by
  obtain ⟨d, hd, rfl⟩ := view_eq_some hv
  simp only [stepD, hd, lookup_resolve]

/-! ### negative results: what the copies are for -/

/-- with a SHALLOW copy in route 1, a caller's `list.append` changes a frozen view -/
theorem shallow_copy_not_frozen :
    ∃ (pre : List Op) (op : Op) (i : Nat), i < (runD .shallow init pre).frozen.length ∧
      view (runD .shallow init (pre ++ [op])) i ≠ view (runD .shallow init pre) i :=
  ⟨[.newList [1], .newDict [(0, .listRef 0)], .fromDict 1], .listAppend 0 2, 0, by decide, by decide⟩

/-- route 3 WITHOUT the deep copy (a real defect of the library): `ImmutableDict([(k, l)])`
    then `l.append(n)` changes the view -/
theorem alias_pairs_not_frozen :
    ∃ (pre : List Op) (op : Op) (i : Nat), i < (runD .alias init pre).frozen.length ∧
      view (runD .alias init (pre ++ [op])) i ≠ view (runD .alias init pre) i :=
  ⟨[.newList [1], .fromPairs [(7, .listRef 0)]], .listAppend 0 2, 0, by decide, by decide⟩

/-- a `copy_pop` that pops from the shared `_data` instead of a copy changes the receiver and
    every object sharing it -/
theorem copyPop_shared_not_frozen :
    ∃ (pre : List Op) (op : Op), 2 ≤ (runD .alias init pre).frozen.length ∧
      view (runD .alias init (pre ++ [op])) 0 ≠ view (runD .alias init pre) 0 ∧
      view (runD .alias init (pre ++ [op])) 1 ≠ view (runD .alias init pre) 1 :=
  ⟨[.fromPairs [(1, .atom 5), (2, .atom 6)], .fromFrozen 0], .copyPop 0 1, by decide, by decide, by decide⟩

/-- the same three histories under the discipline of the code as it is: nothing moves -/
example :
    view (run init [.newList [1], .newDict [(0, .listRef 0)], .fromDict 1, .listAppend 0 2]) 0
      = some [(0, .list [1])] ∧
    view (run init [.newList [1], .fromPairs [(7, .listRef 0)], .listAppend 0 2]) 0
      = some [(7, .list [1])] ∧
    views (run init [.fromPairs [(1, .atom 5), (2, .atom 6)], .fromFrozen 0, .copyPop 0 1])
      = [[(1, .atom 5), (2, .atom 6)], [(1, .atom 5), (2, .atom 6)], [(2, .atom 6)]] := by decide

/-! ### non-vacuity: a history mixing every kind of operation -/

/-- 14 operations, all 12 kinds -/
def demoHistory : List Op :=
  [ .newList [1, 2],                                        -- location 0
    .newDict [(10, .atom 7), (11, .listRef 0)],             -- location 1
    .fromDict 1,                                            -- object 0
    .listAppend 0 3,
    .dictSet 1 12 (.atom 9),
    .fromFrozen 0,                                          -- object 1
    .fromPairs [(5, .listRef 0), (6, .atom 1), (5, .atom 2)], -- object 2
    .copyPop 0 11,                                          -- object 3
    .dictDel 1 10,
    .fromDict 1,                                            -- object 4
    .dictClear 1,
    .listSetAll 0 [],
    .lookup 0 11,
    .lookup 3 11 ]

example : views (run init demoHistory) =
    [ [(10, .atom 7), (11, .list [1, 2])],
      [(10, .atom 7), (11, .list [1, 2])],
      [(5, .atom 2), (6, .atom 1)],
      [(10, .atom 7)],
      [(11, .list [1, 2, 3]), (12, .atom 9)] ] := by decide

example : (traceD .deep init demoHistory).map (·.1) =
    [ .loc 0, .loc 1, .obj 0, .unit, .unit, .obj 1, .obj 2, .popped 3 (some (.list [1, 2])),
      .unit, .obj 4, .unit, .unit, .value (some (.list [1, 2])), .value none ] := by decide

/-- the caller's own containers did change (the history is not a string of no-ops) -/
example : (run init demoHistory).dicts 1 = [] ∧ (run init demoHistory).lists 0 = [] := by decide

/-- caller operations naming a private location, a location of the wrong kind or an unallocated
    one, and library operations naming an object that does not exist, are no-ops -/
example : (traceD .deep init [.newList [1], .fromPairs [(1, .listRef 0)], .dictSet 2 1 (.atom 0),
      .listAppend 1 5, .listAppend 9 5, .dictClear 0, .fromFrozen 3, .copyPop 1 1, .lookup 1 1,
      .fromDict 0, .fromDict 7]).map (·.1) =
    [.loc 0, .obj 0, .invalid, .invalid, .invalid, .invalid, .invalid, .invalid, .invalid,
      .invalid, .invalid] := by decide

/-- the same history under the three disciplines: the views at the end differ exactly where the
    copies matter -/
example : views (runD .shallow init demoHistory) ≠ views (run init demoHistory) ∧
    views (runD .alias init demoHistory) ≠ views (run init demoHistory) := by decide

end FrozenHeap

end Swh.C11
