import SwhVerif.Lemmas.SwhidWF
/-!
# C08 — SWHID print ∘ parse = id

Model: `SwhVerif/Model/Swhid.lean` (`printValue`, `parseSwhid`, `escapeOrigin`, `pyUnquote`,
`quoteFromBytes`, `unquoteToBytes`, `toExtended`, `toQualified`); grammar: `SwhidLang.lean`.
Type tags come from the generated tables (`coreTags = Gen.coreTypes.map String.toList`, …).

Two behaviours are those of the repaired library: strict `lines` (ASCII digits only) and
percent-encoding of whitespace in the origin.  CPython's limit on `int(str)` (4300 digits) is part
of the model (`maxDigits`), hence the bound on line numbers.
-/
namespace Swh.C08
open Swh

/-! ### codecs -/

/-- **The assertion inside `QualifiedSWHID.qualifiers()` never fails**, for *every* origin
    (whitespace included, thanks to the repaired escaping). -/
theorem unquote_escapeOrigin (s : Str) : pyUnquote (escapeOrigin s) = s :=
  pyUnquote_escapeOrigin s

/-- `urllib.parse.unquote_to_bytes(urllib.parse.quote_from_bytes(b)) == b` for all bytes. -/
theorem unquoteToBytes_quote (b : Bytes) : unquoteToBytes (quoteFromBytes b) = b :=
  unquoteToBytes_quoteFromBytes b

/-- `bytes.decode("utf-8", "replace")` inverts `str.encode("utf-8")` (used by the above). -/
theorem utf8_roundtrip (s : Str) : utf8Dec (utf8Enc s) = s := utf8Dec_utf8Enc s

/-- the escaped origin and the quoted path contain no `;`, no whitespace, and every `%` is
    followed by two upper-case hex digits -/
theorem origin_text_safe (o : Str) : PctSafe (escapeOrigin o) := escapeOrigin_pctSafe o
theorem path_text_safe (p : Bytes) : PctSafe (quoteFromBytes p) := quoteFromBytes_pctSafe p

/-- `lines` round trip, for line numbers below `10^4300` -/
theorem lines_roundtrip (a : Nat) (b : Option Nat) (ha : a < 10 ^ maxDigits)
    (hb : ∀ y, b = some y → y < 10 ^ maxDigits) :
    parseLines (some maxDigits) (printLines (a, b)) = .ok (a, b) := by
  apply parseLines_printLines
  cases b with
  | none => exact withinLimit_of_lt a ha
  | some y => exact ⟨withinLimit_of_lt a ha, withinLimit_of_lt y (hb y rfl)⟩

/-- without CPython's digit limit the `lines` round trip is unconditional -/
theorem lines_roundtrip_unlimited (l : Nat × Option Nat) :
    parseLines none (printLines l) = .ok l := by
  apply parseLines_printLines
  obtain ⟨a, b⟩ := l
  cases b <;> simp [LinesWF, withinLimit]

/-! ### values -/

/-- what the constructor of `CoreSWHID` / `ExtendedSWHID` guarantees -/
structure WfBase (types : List String) (b : BaseSwhid) : Prop where
  ty : b.objectType ∈ types.map String.toList
  id : b.objectId.length = 20

/-- what the constructor of `QualifiedSWHID` guarantees, plus the bound on line numbers.
    Nothing is required of `origin` (any string, empty or not, whitespace or not) nor of `path`
    (any bytes). -/
structure WfQual (q : QualSwhid) : Prop where
  ty : q.objectType ∈ Gen.coreTypes.map String.toList
  id : q.objectId.length = 20
  visit : ∀ b, q.visit = some b → b.objectType = "snp".toList ∧ b.objectId.length = 20
  anchor : ∀ b, q.anchor = some b →
    b.objectType ∈ ["dir".toList, "rev".toList, "rel".toList, "snp".toList] ∧ b.objectId.length = 20
  lines : ∀ a b, q.lines = some (a, b) → a < 10 ^ maxDigits ∧ ∀ y, b = some y → y < 10 ^ maxDigits

def Wf : Value → Prop
  | .core b => WfBase Gen.coreTypes b
  | .extended b => WfBase Gen.extendedTypes b
  | .qualified q => WfQual q

theorem wf_valueWF (v : Value) (h : Wf v) : ValueWF (some maxDigits) v := by
  cases v with
  | core b => exact ⟨h.ty, h.id⟩
  | extended b => exact ⟨h.ty, h.id⟩
  | qualified q =>
    refine ⟨h.ty, h.id, ?_, ?_, ?_⟩
    · intro b hb
      exact ⟨by rw [(h.visit b hb).1]; decide, (h.visit b hb).2⟩
    · intro b hb; exact ⟨(h.anchor b hb).1, (h.anchor b hb).2⟩
    · rintro ⟨a, b⟩ hl
      obtain ⟨ha, hb⟩ := h.lines a b hl
      cases b with
      | none => exact withinLimit_of_lt a ha
      | some y => exact ⟨withinLimit_of_lt a ha, withinLimit_of_lt y (hb y rfl)⟩

/-- **Round trip**: `cls.from_string(str(v)) == v` for core, extended and qualified values, every
    subset of qualifiers, arbitrary origin characters and arbitrary path bytes. -/
theorem parse_print (v : Value) (h : Wf v) : parseSwhid v.cls (printValue v) = .ok v :=
  parseSwhidW_print (some maxDigits) v (wf_valueWF v h)

/-- the same without CPython's digit limit: no bound on line numbers is needed -/
theorem parse_print_unlimited (v : Value) (h : ValueWF none v) :
    parseSwhidW none v.cls (printValue v) = .ok v :=
  parseSwhidW_print none v h

/-- **The text form belongs to the documented grammar** (for every origin: whitespace is
    percent-encoded by the repaired printer). -/
theorem print_in_grammar (v : Value) (h : Wf v) : InLang v.cls (printValue v) := by
  apply inLangW_mono (some maxDigits)
  rw [← accept_iff_W]
  have := parse_print v h
  unfold parseSwhid at this
  rw [this]
  rfl

/-- the text starts with `swh:1:<type>:` followed by the 40 lower-case hex digits of the id, and
    what follows is the (possibly empty) list of `;key=value` qualifiers in the order
    origin, visit, anchor, path, lines -/
theorem print_shape (v : Value) :
    ∃ rest, printValue v = "swh:1:".toList ++ v.objectType ++ ':' :: hexStrOf v.objectId ++ rest ∧
      (hexStrOf v.objectId).length = 2 * v.objectId.length ∧
      (∀ c ∈ hexStrOf v.objectId, c ∈ hexDigits) ∧
      match v with
      | .qualified q => rest = qualText (qualifierList q) ∧
          (qualifierList q).map Prod.fst
            = (if q.origin.isSome then ["origin".toList] else []) ++
              (if q.visit.isSome then ["visit".toList] else []) ++
              (if q.anchor.isSome then ["anchor".toList] else []) ++
              (if q.path.isSome then ["path".toList] else []) ++
              (if q.lines.isSome then ["lines".toList] else [])
      | _ => rest = [] := by
  have hx : ∀ id : Bytes, ∀ c ∈ hexStrOf id, c ∈ hexDigits :=
    fun id c hc => mem_hexDigits_of_isLowerHexC c (hexStrOf_hex id c hc)
  cases v with
  | core b => exact ⟨[], by simp [printValue, printBase, corePrefix_lit, Value.objectType,
      Value.objectId], hexStrOf_length _, hx _, rfl⟩
  | extended b => exact ⟨[], by simp [printValue, printBase, corePrefix_lit, Value.objectType,
      Value.objectId], hexStrOf_length _, hx _, rfl⟩
  | qualified q =>
    refine ⟨qualText (qualifierList q), ?_, hexStrOf_length _, hx _, rfl, ?_⟩
    · simp [printValue, printQualified_eq, printBase, corePrefix_lit, Value.objectType,
        Value.objectId, QualSwhid.base]
    · obtain ⟨t, id, o, vi, an, pa, li⟩ := q
      cases o <;> cases vi <;> cases an <;> cases pa <;> cases li <;> rfl

/-! ### conversions -/

/-- `CoreSWHID.to_extended()` keeps text and id -/
theorem to_extended_text (b : BaseSwhid) (h : WfBase Gen.coreTypes b) :
    ∃ e, toExtended b = .ok e ∧ printValue (.extended e) = printValue (.core b) ∧
      e.objectId = b.objectId ∧ e.objectType = b.objectType := by
  refine ⟨b, ?_, rfl, rfl, rfl⟩
  unfold toExtended
  rw [mkBase_ok]
  exact ⟨coreTags_sub_extTags _ h.ty, h.id, rfl⟩

/-- `CoreSWHID.to_qualified()` keeps text and id (and sets no qualifier) -/
theorem to_qualified_text (b : BaseSwhid) (h : WfBase Gen.coreTypes b) :
    ∃ q, toQualified b = .ok q ∧ printValue (.qualified q) = printValue (.core b) ∧
      q.objectId = b.objectId ∧ q.objectType = b.objectType ∧ q = QualSwhid.ofBase b := by
  refine ⟨QualSwhid.ofBase b, ?_, printQualified_ofBase b, rfl, rfl, rfl⟩
  unfold toQualified
  rw [mkQualified_ok]
  exact ⟨h.ty, h.id, rfl, rfl, rfl, rfl, rfl, rfl⟩

/-! ### non-vacuity -/

def exId : Bytes :=
  [0x8f, 0xf4, 0x4f, 0x08, 0x1d, 0x43, 0x17, 0x64, 0x74, 0xb2, 0x67, 0xde, 0x54, 0x51, 0xf2, 0xc2,
   0xe8, 0x80, 0x89, 0xd0]

/-- all five qualifiers; origin with `;`, `%`, a literal `%3B`, a space and a non-ASCII space;
    path with bytes 0x00, 0x25, 0x3b, 0xff -/
def exQual : QualSwhid :=
  { objectType := "cnt".toList, objectId := exId,
    origin := some "https://x.org/a;b%c%3B d é".toList,
    visit := some ⟨"snp".toList, exId⟩, anchor := some ⟨"rev".toList, exId⟩,
    path := some [0x2f, 0x61, 0x00, 0x25, 0x3b, 0xff], lines := some (5, some 10) }

theorem small_lt (n : Nat) (h : n < 100) : n < 10 ^ maxDigits :=
  Nat.lt_of_lt_of_le h
    (Nat.pow_le_pow_right (n := 10) (by decide : 10 > 0) (by decide : 2 ≤ maxDigits))

theorem exQual_wf : Wf (.qualified exQual) := by
  refine ⟨by decide, by decide, ?_, ?_, ?_⟩
  · intro b hb; cases hb; exact ⟨rfl, by decide⟩
  · intro b hb; cases hb; exact ⟨by decide, by decide⟩
  · intro a b hl
    simp only [exQual, Option.some.injEq, Prod.mk.injEq] at hl
    obtain ⟨rfl, rfl⟩ := hl
    exact ⟨small_lt 5 (by decide), fun y hy => by cases hy; exact small_lt 10 (by decide)⟩

example : parseSwhid .qualified (printValue (.qualified exQual)) = .ok (.qualified exQual) :=
  parse_print _ exQual_wf
example : InLang .qualified (printValue (.qualified exQual)) := print_in_grammar _ exQual_wf

example : pyUnquote (escapeOrigin "a;b%c%3B d é\t".toList) = "a;b%c%3B d é\t".toList :=
  unquote_escapeOrigin _
example : escapeOrigin "a;b%c d ".toList = "a%3Bb%25c%20d%E2%80%A8".toList := by decide
example : quoteFromBytes [0x2f, 0x61, 0x00, 0x25, 0x3b, 0xff, 0x7e] = "/a%00%25%3B%FF~".toList := by
  decide
example : unquoteToBytes "/a%00%25%3b%FF%zz%4".toList
    = [0x2f, 0x61, 0x00, 0x25, 0x3b, 0xff, 0x25, 0x7a, 0x7a, 0x25, 0x34] := by decide
example : pyUnquote "%e2%82%ac%ff%C3".toList = ['€', '�', '�'] := by decide
example : Wf (.core ⟨"rev".toList, exId⟩) := ⟨by decide, by decide⟩
example : Wf (.extended ⟨"ori".toList, exId⟩) := ⟨by decide, by decide⟩
example : ¬ Wf (.core ⟨"ori".toList, exId⟩) := fun h => absurd h.ty (by decide)
example : parseLines (some maxDigits) (printLines (0, none)) = .ok (0, none) :=
  lines_roundtrip 0 none (small_lt 0 (by decide)) (fun _ h => by cases h)

end Swh.C08
