import SwhVerif.Lemmas.Manifests
/-!
# C15 — External-id and extrinsic-metadata ids come from unambiguous manifests
`extidId H e = H (extidManifest e)`, `remId H m = H (remManifest m)`.
-/
namespace Swh.C15
open Swh

def extidId (H : Bytes → Bytes) (e : ExtidAttrs) : Bytes := H (extidManifest e)
def remId (H : Bytes → Bytes) (m : RemAttrs) : Bytes := H (remManifest m)

/-! ## ExtID -/

def expectedExtid (e : ExtidAttrs) : ParsedExtid :=
  ⟨e.extidType, e.versionLine, e.extid, e.target, e.payloadType, e.payload⟩

theorem mem_optHeader_wf (kv : Header) (k : Bytes) (o : Option Bytes) (hk : wfKey k = true)
    (hmem : kv ∈ optHeader k o) : wfKey kv.1 = true := by
  cases o with
  | none => simp [optHeader] at hmem
  | some v => simp [optHeader] at hmem; subst hmem; exact hk

theorem extidHeaders_wf (e : ExtidAttrs) : ∀ kv ∈ extidHeaders e, wfKey kv.1 = true := by
  intro kv hkv
  unfold extidHeaders at hkv
  simp only [List.mem_append, List.mem_cons, List.not_mem_nil, or_false] at hkv
  rcases hkv with (((rfl | h) | (rfl | rfl)) | h) | h
  · exact (by decide : wfKey kExtidType = true)
  · exact mem_optHeader_wf _ _ _ (by decide) h
  · exact (by decide : wfKey kExtid = true)
  · exact (by decide : wfKey kTarget = true)
  · exact mem_optHeader_wf _ _ _ (by decide) h
  · exact mem_optHeader_wf _ _ _ (by decide) h

/-- **ExtID manifests are decodable**: an independent parser recovers every field; the version
    line appears exactly when the version is non-zero, the payload lines exactly when set —
    for arbitrary id bytes (newlines included). -/
theorem parseExtid_manifest (e : ExtidAttrs) :
    parseExtid (extidManifest e) = some (expectedExtid e) := by
  unfold parseExtid extidManifest
  rw [stripGitHeader_gitObject extidTy _ (by decide)]
  simp only
  unfold extidBody
  rw [parseHeaders_fmtHeaders _ _ (extidHeaders_wf e)]
  simp only
  unfold parseExtidHs extidHeaders expectedExtid
  simp only [List.cons_append, List.nil_append, List.append_assoc, takeKey_hit]
  rw [takeKeyOpt_optHeader kExtidVersion _ _ (headKeyNe_cons _ _ _ _ (by decide))]
  simp only [takeKey_hit]
  rw [takeKeyOpt_optHeader kPayloadType]
  · simp only []
    have : takeKeyOpt kPayload (optHeader kPayload e.payload) = (e.payload, []) := by
      have := takeKeyOpt_optHeader kPayload e.payload [] (headKeyNe_nil _)
      simpa using this
    rw [this]
    simp
  · cases e.payload <;> simp [optHeader, headKeyNe] <;> decide

/-- the version line is present iff the version is non-zero -/
theorem version_line_iff (e : ExtidAttrs) : e.versionLine.isSome ↔ e.version ≠ 0 := by
  unfold ExtidAttrs.versionLine; split <;> simp_all

theorem extidManifest_injective (e e' : ExtidAttrs) (h : extidManifest e = extidManifest e') :
    expectedExtid e = expectedExtid e' := by
  have a := parseExtid_manifest e
  rw [h, parseExtid_manifest e'] at a
  exact (Option.some.inj a).symm

/-- … hence the attributes themselves are equal -/
theorem extid_attrs_injective (e e' : ExtidAttrs) (h : extidManifest e = extidManifest e') : e = e' := by
  have hp := extidManifest_injective e e' h
  unfold expectedExtid at hp
  cases e; cases e'
  simp only [ParsedExtid.mk.injEq] at hp
  obtain ⟨h1, h2, h3, h4, h5, h6⟩ := hp
  simp only [ExtidAttrs.mk.injEq]
  refine ⟨h1, ?_, h3, h4, h5, h6⟩
  rename_i v1 _ _ _ _ _ v2 _ _ _ _
  simp only [ExtidAttrs.versionLine] at h2
  by_cases a : v1 = 0 <;> by_cases b : v2 = 0 <;> simp [a, b] at h2
  · omega
  · exact decInt_injective _ _ h2

/-! ## raw extrinsic metadata -/

def expectedRem (m : RemAttrs) : ParsedRem :=
  ⟨m.target, decInt m.second, m.authorityType, m.authorityUrl, m.fetcherName, m.fetcherVersion,
   m.format, m.origin, m.visit.map dec, m.snapshot, m.release, m.revision, m.path, m.directory,
   m.metadata⟩

/-- what the format requires: the authority type and the fetcher version contain no space -/
def WfRem (m : RemAttrs) : Prop := bSP ∉ m.authorityType ∧ bSP ∉ m.fetcherVersion

theorem remHeaders_wf (m : RemAttrs) : ∀ kv ∈ remHeaders m, wfKey kv.1 = true := by
  intro kv hkv
  unfold remHeaders at hkv
  simp only [List.mem_append, List.mem_cons, List.not_mem_nil, or_false] at hkv
  have opt : ∀ (k : Bytes) (o : Option Bytes), wfKey k = true → kv ∈ optHeader k o → wfKey kv.1 = true :=
    fun k o hk hmem => mem_optHeader_wf kv k o hk hmem
  rcases hkv with (((((((rfl | rfl | rfl | rfl | rfl) | h) | h) | h) | h) | h) | h) | h
  · exact (by decide : wfKey kTarget = true)
  · exact (by decide : wfKey kDiscovery = true)
  · exact (by decide : wfKey kAuthority = true)
  · exact (by decide : wfKey kFetcher = true)
  · exact (by decide : wfKey kFormat = true)
  · exact opt _ _ (by decide) h
  · exact opt _ _ (by decide) h
  · exact opt _ _ (by decide) h
  · exact opt _ _ (by decide) h
  · exact opt _ _ (by decide) h
  · exact opt _ _ (by decide) h
  · exact opt _ _ (by decide) h

/-- **Metadata manifests are decodable**: every field is recovered by an independent parser —
    for all context subsets, URLs/names with newlines and non-ASCII bytes, arbitrary metadata
    bytes; context lines appear exactly when set, in the fixed order. -/
theorem parseRem_manifest (m : RemAttrs) (hw : WfRem m) :
    parseRem (remManifest m) = some (expectedRem m) := by
  unfold parseRem remManifest
  rw [stripGitHeader_gitObject remTy _ (by decide)]
  simp only
  unfold remBody
  rw [parseHeaders_fmtHeaders _ _ (remHeaders_wf m)]
  simp only
  unfold parseRemHs remHeaders expectedRem
  simp only [List.cons_append, List.nil_append, List.append_assoc, takeKey_hit]
  rw [splitFirst_append bSP _ _ hw.1, splitLast_append bSP _ _ hw.2]
  simp only
  rw [takeKeyOpt_optHeader kOrigin]
  · simp only []
    rw [takeKeyOpt_optHeader kVisit]
    · simp only []
      rw [takeKeyOpt_optHeader kSnapshot]
      · simp only []
        rw [takeKeyOpt_optHeader kRelease]
        · simp only []
          rw [takeKeyOpt_optHeader kRevision]
          · simp only []
            rw [takeKeyOpt_optHeader kPath]
            · simp only []
              have : takeKeyOpt kDirectory (optHeader kDirectory m.directory)
                  = (m.directory, []) := by
                have := takeKeyOpt_optHeader kDirectory m.directory [] (headKeyNe_nil _)
                simpa using this
              rw [this]
              simp
            · repeat (first | exact headKeyNe_nil _ | apply headKeyNe_optHeader_append _ _ _ _ (by decide))
              cases m.directory <;> simp [optHeader, headKeyNe] <;> decide
          · repeat (first | exact headKeyNe_nil _ | apply headKeyNe_optHeader_append _ _ _ _ (by decide))
            cases m.directory <;> simp [optHeader, headKeyNe] <;> decide
        · repeat (first | exact headKeyNe_nil _ | apply headKeyNe_optHeader_append _ _ _ _ (by decide))
          cases m.directory <;> simp [optHeader, headKeyNe] <;> decide
      · repeat (first | exact headKeyNe_nil _ | apply headKeyNe_optHeader_append _ _ _ _ (by decide))
        cases m.directory <;> simp [optHeader, headKeyNe] <;> decide
    · repeat (first | exact headKeyNe_nil _ | apply headKeyNe_optHeader_append _ _ _ _ (by decide))
      cases m.directory <;> simp [optHeader, headKeyNe] <;> decide
  · repeat (first | exact headKeyNe_nil _ | apply headKeyNe_optHeader_append _ _ _ _ (by decide))
    cases m.directory <;> simp [optHeader, headKeyNe] <;> decide

theorem remManifest_injective (m m' : RemAttrs) (hw : WfRem m) (hw' : WfRem m')
    (h : remManifest m = remManifest m') : expectedRem m = expectedRem m' := by
  have a := parseRem_manifest m hw
  rw [h, parseRem_manifest m' hw'] at a
  exact (Option.some.inj a).symm

/-- **The id depends on the discovery date only through the UTC second**: two dates with the
    same `floor(utcMicros / 10^6)` — any time zone, any sub-second part, before or after the
    epoch — give the same manifest … -/
theorem date_only_through_second (m : RemAttrs) (d' : DT)
    (h : d'.utcMicros / 1000000 = m.discovery.utcMicros / 1000000) :
    remManifest { m with discovery := d' } = remManifest m := by
  simp [remManifest, remBody, remHeaders, RemAttrs.second, h]

/-- … and different seconds give different manifests. -/
theorem different_second_different_manifest (m : RemAttrs) (d' : DT) (hw : WfRem m)
    (h : d'.utcMicros / 1000000 ≠ m.discovery.utcMicros / 1000000) :
    remManifest { m with discovery := d' } ≠ remManifest m := by
  intro heq
  have := remManifest_injective { m with discovery := d' } m hw hw heq
  unfold expectedRem at this
  simp only [ParsedRem.mk.injEq] at this
  exact h (decInt_injective _ _ this.2.1)

/-- same instant written with another offset: the instant (UTC microseconds) is what counts -/
theorem timezone_irrelevant (m : RemAttrs) (off : Int) :
    remManifest { m with discovery := ⟨m.discovery.utcMicros, off⟩ } = remManifest m :=
  date_only_through_second m _ rfl

/-- the second is the floor, also before the epoch (−0.5 s is second −1, not 0) -/
example : (⟨-500000, 0⟩ : DT).utcMicros / 1000000 = -1 := by decide

/-- non-vacuity -/
example : WfRem ⟨[], ⟨-1, 0⟩, asc ['f','o','r','g','e'], asc ['h',' ','\n','x'], asc ['a',' ','b'],
    asc ['1','.','0'], [], [], none, some 3, none, none, none, some (asc ['/',' ']), none⟩ := by
  unfold WfRem; simp; decide

end Swh.C15
