import SwhVerif.Lemmas.MerkleCheck
import SwhVerif.Lemmas.MerkleAcyclic
/-!
# C14 — Merkle collection reports every new or changed node, once

Model: C10's heap plus `collect_node`, `collect`, `reset_collect` (`Model/Merkle.lean`).
`runL` threads a ghost log next to the heap: every `collect` appends the pairs
`(node, hash of the node when the collection returned)` for the nodes it returned
(`logOf`/`stepL`); nothing is ever removed from the log.  `Reach h root m`: `m` is in the
sub-structure rooted at `root`.  The collected set is returned as the list of ids newly marked
(the implementation returns a `set` of nodes, compared by value).
-/
namespace Swh.C14
open Swh Swh.Merkle
variable {H : Type} {hashFn : Data → List (EntryV H) → H}

/-- the state reached by an acyclic history satisfies the invariant of C10, is acyclic, and
(K): every node marked collected has a cached hash and was reported with exactly that hash -/
theorem sound_run (ops : List Op) (a : AcyclicHist hashFn (Heap.empty : Heap H) ops) :
    Sound hashFn (runL hashFn (Heap.empty, []) ops) := sound_runL ops _ sound_empty a

/-- `AcyclicHist` is implied by the plain absence of cycles along the history -/
theorem acyclic_of_no_cycle (ops : List Op)
    (nc : NoCycleHist hashFn (Heap.empty : Heap H) ops) :
    AcyclicHist hashFn (Heap.empty : Heap H) ops :=
  acyclicHist_of_noCycleHist ops _ inv_empty nc

/-- (K) in terms of the specification: a node marked collected was reported with its current
from-scratch hash -/
theorem collected_reported (s : Heap H × Log H) (sd : Sound hashFn s) (n : Id)
    (hc : (s.1.get n).collected = true) : (n, fresh hashFn s.1 n) ∈ s.2 := by
  obtain ⟨v, hv, hl⟩ := sd.klog n hc
  rw [← cache_eq_fresh _ sd.inv sd.acyclic n v hv]; exact hl

/-- **Completeness.** At every point of every acyclic history, after `collect root` every node
of the sub-structure rooted at `root` has been reported by some collection (this one or an
earlier one) with its current, from-scratch hash. -/
theorem collect_complete (ops : List Op) (a : AcyclicHist hashFn (Heap.empty : Heap H) ops)
    (root : Id) :
    let s := runL hashFn (Heap.empty, []) ops
    root < s.1.size →
    let s' := stepL hashFn s (.collect root)
    ∀ m, Reach s'.1 root m → (m, fresh hashFn s'.1 m) ∈ s'.2 := by
  intro s hroot s' m hr
  have sd : Sound hashFn s := sound_run ops a
  obtain ⟨i1, cst, _, hall⟩ := collect_post sd.inv sd.acyclic root hroot
  have hs' : s'.1 = (collect hashFn (topFuel s.1) (topFuel s.1) s.1 root).1 := by
    show (step hashFn s.1 (.collect root)).1 = _
    rw [step_collect s.1 root hroot]
  have same := cst.g0.toSameStruct
  have sd' : Sound hashFn s' :=
    ⟨(step_post sd.inv sd.acyclic _).inv, by rw [hs']; exact sd.acyclic.of_same same,
     klog_stepL sd.inv sd.acyclic sd.klog _⟩
  apply collected_reported s' sd' m
  rw [hs'] at hr ⊢
  exact hall m (hr.of_same same.symm)

/-- **Nothing new or changed is missed**: every node of the sub-structure that is not marked
collected (new nodes, and nodes whose hash was invalidated since they were last collected, are
unmarked — see `unmarked_after_change`) is returned by this very collection; and the
collection returns no node twice. -/
theorem collect_reports_unmarked (ops : List Op) (a : AcyclicHist hashFn (Heap.empty : Heap H) ops)
    (root : Id) :
    let s := runL hashFn (Heap.empty, []) ops
    root < s.1.size →
    (∀ m, Reach s.1 root m → (s.1.get m).collected = false →
      m ∈ outIds (step hashFn s.1 (.collect root)).2) ∧
    (outIds (step hashFn s.1 (.collect root)).2).Nodup := by
  intro s hroot
  have sd : Sound hashFn s := sound_run ops a
  obtain ⟨_, cst, _, hall⟩ := collect_post sd.inv sd.acyclic root hroot
  rw [step_collect s.1 root hroot]
  refine ⟨?_, cst.nodup⟩
  intro m hr hc
  have := hall m hr
  rw [cst.flags, hc] at this
  simpa [outIds] using this

/-- a node whose cached hash was dropped or replaced by an operation other than a collection is
no longer marked collected (so the next collection reports it) -/
theorem unmarked_after_change (s : Heap H × Log H) (sd : Sound hashFn s) (op : Op)
    (hop : ∀ n, op ≠ .collect n) (m : Id)
    (hch : ((step hashFn s.1 op).1.get m).cache ≠ (s.1.get m).cache) :
    ((step hashFn s.1 op).1.get m).collected = false := by
  cases hc : ((step hashFn s.1 op).1.get m).collected with
  | false => rfl
  | true =>
    exact absurd ((step_post sd.inv sd.acyclic op).coll sd.klog.kinv hop m hc).2 hch

/-- **Idempotence**: a second `collect root` immediately after the first reports nothing (and
changes nothing). -/
theorem collect_idempotent (ops : List Op) (a : AcyclicHist hashFn (Heap.empty : Heap H) ops)
    (root : Id) :
    let s := runL hashFn (Heap.empty, []) ops
    root < s.1.size →
    let h1 := (step hashFn s.1 (.collect root)).1
    step hashFn h1 (.collect root) = (h1, .ids []) := by
  intro s hroot h1
  have sd : Sound hashFn s := sound_run ops a
  obtain ⟨_, cst, _, hall⟩ := collect_post sd.inv sd.acyclic root hroot
  have hh1 : h1 = (collect hashFn (topFuel s.1) (topFuel s.1) s.1 root).1 := by
    show (step hashFn s.1 (.collect root)).1 = _
    rw [step_collect s.1 root hroot]
  have same := cst.g0.toSameStruct
  have hroot1 : root < h1.size := by rw [hh1, same.size]; exact hroot
  rw [step_collect h1 root hroot1]
  rw [collect_noop hashFn (topFuel h1) (topFuel h1) h1 root]
  intro m hr
  rw [hh1] at hr ⊢
  exact hall m (hr.of_same same.symm)

/-- **Reset**: after `resetCollect root`, `collect root` reports every node of the
sub-structure rooted at `root`. -/
theorem reset_then_all (ops : List Op) (a : AcyclicHist hashFn (Heap.empty : Heap H) ops)
    (root : Id) :
    let s := runL hashFn (Heap.empty, []) ops
    root < s.1.size →
    let h1 := (step hashFn s.1 (.resetCollect root)).1
    ∀ m, Reach s.1 root m → m ∈ outIds (step hashFn h1 (.collect root)).2 := by
  intro s hroot h1 m hr
  have sd : Sound hashFn s := sound_run ops a
  obtain ⟨rank, rk, hb⟩ := sd.acyclic
  obtain ⟨f1, _, hclear⟩ := resetCollect_spec rank (topFuel s.1) s.1 root rk (rank_lt_topFuel hb root)
  have hh1 : h1 = resetCollect (topFuel s.1) s.1 root := by
    show (step hashFn s.1 (.resetCollect root)).1 = _
    rw [step_resetCollect s.1 root hroot]
  have same := f1.toSameStruct
  rw [← hh1] at f1 hclear same
  have i1 : Inv hashFn h1 := inv_of_flagOnly sd.inv f1
  have a1 : Acyclic h1 := sd.acyclic.of_same same
  have hroot1 : root < h1.size := by rw [same.size]; exact hroot
  obtain ⟨_, cst, _, hall⟩ := collect_post i1 a1 root hroot1
  rw [step_collect h1 root hroot1]
  have := hall m (hr.of_same same)
  rw [cst.flags, hclear m hr] at this
  simpa [outIds] using this

/-! ### non-vacuity: a concrete history with collections

Two equal parents `2`, `3` sharing the child `1`; collect, change below, collect again, reset. -/

def exName (s : String) : Name := s.toList.map (fun c => UInt8.ofNat c.toNat)

def exOps : List Op := [
  .newNode 7 false true, .newNode 9 false false, .newNode 1 false false, .newNode 1 false false,
  .setItem 1 [exName "l"] 0, .setItem 2 [exName "x"] 1, .setItem 3 [exName "x"] 1,
  .collect 2, .collect 3, .collect 3,
  .delItem 2 [exName "x"],
  .newNode 8 false true, .setItem 1 [exName "m"] 4,
  .collect 2, .collect 3, .resetCollect 3, .collect 3]

theorem exOps_acyclic : AcyclicHist HTerm.hashFn (Heap.empty : Heap HTerm) exOps :=
  acyclicHist_of_check [0, 1, 2, 2, 0] exOps Heap.empty (by decide +kernel)

/-- what the collections of the example return: `2` reports the whole sub-structure, `3` only
itself, again `3` nothing; after the change below, `2` (now childless) reports itself only, `3`
reports itself, the changed child and the new leaf but not the unchanged leaf `0`; after the
reset everything below `3`. -/
example : (run HTerm.hashFn Heap.empty exOps).2.map outIds =
    [[], [], [], [], [], [], [], [2, 1, 0], [3], [], [], [], [], [2], [3, 1, 4], [], [3, 1, 0, 4]] := by
  decide +kernel

example (m : Id) :
    let s := runL HTerm.hashFn (Heap.empty, []) exOps
    let s' := stepL HTerm.hashFn s (.collect 3)
    Reach s'.1 3 m → (m, fresh HTerm.hashFn s'.1 m) ∈ s'.2 :=
  collect_complete exOps exOps_acyclic 3 (by decide +kernel) m

end Swh.C14
