import SwhVerif.Lemmas.FsFilter
import SwhVerif.Lemmas.FsExport
import SwhVerif.Lemmas.FsSkip
import SwhVerif.Lemmas.FsExample
/-!
# C13 — filtering and exporting an on-disk tree is consistent and closed

Model: `SwhVerif/Model/Fs.lean`.  `readTree H f maxLen top` is the two passes of
`Directory.from_disk` (pass 1: a sub-directory is skipped when the filter rejects its **on-disk**
listing; pass 2, bottom-up: a surviving sub-directory is deleted when the filter rejects its
**current** children); `pruneNamed`, `pruneEmpty`, `pruneBy` remove directories from the on-disk
tree itself; `iterTree` is `iter_tree(dedup=True)`, `iterDirectory` the three lists of
`iter_directory`.  `H` is the hash, uninterpreted: nothing below assumes it injective.

* `filter_eq_prune` (any filter that looks at a listing through its emptiness only),
  `filter_named_eq_prune`, `filter_empty_eq_prune`, `filter_both_eq_prune`: equality of the whole
  outcome — the same error, or the same tree, hence the same root id and the same node at
  every path (`filter_eq_prune_lookup`);
* `export_closed`, `export_unique_ids`, `export_check`, `content_data`, `skipped_content`,
  `skipped_keeps_dir_ids`.

A symbolic link whose text is longer than `maxLen` makes the real reader raise; in the model
this is `Except.error Err.symlinkTooLarge` (`symlink_too_large_raises`).
-/
namespace Swh.C13
open Swh Swh.Fs

/-- **7. Two passes = prune, then read** — for every filter that looks at a directory listing
    through its emptiness only (`EmptinessOnly`; the three shipped filters and their
    conjunctions are such: `emptinessOnly_shipped`).  The outcomes are equal as a whole: same
    error, or same tree. -/
theorem filter_eq_prune (H : Bytes → Bytes) (f : PathFilter) (hf : EmptinessOnly f) (ml : Option Nat)
    (t : FsNode) : readTree H f ml t = readTree H acceptAllPaths ml (pruneBy f t) :=
  readTree_eq_prune H f ml hf t

theorem emptinessOnly_shipped (flt : Filter) : EmptinessOnly flt.fn := emptinessOnly_fn flt

/-- `ignore_named_directories(names, case_sensitive=cs)` = read the tree from which every
    so-named sub-directory was removed -/
theorem filter_named_eq_prune (H : Bytes → Bytes) (nms : List Bytes) (cs : Bool) (ml : Option Nat)
    (t : FsNode) :
    readTreeF H (.ignoreNamed nms cs) ml t = readTreeF H .acceptAll ml (pruneNamed nms cs t) := by
  unfold readTreeF
  rw [readTree_eq_prune H _ ml (emptinessOnly_fn _) t, pruneBy_fn]; rfl

/-- `ignore_empty_directories` = read the tree from which empty sub-directories were removed,
    recursively -/
theorem filter_empty_eq_prune (H : Bytes → Bytes) (ml : Option Nat) (t : FsNode) :
    readTreeF H .ignoreEmpty ml t = readTreeF H .acceptAll ml (pruneEmpty t) := by
  unfold readTreeF
  rw [readTree_eq_prune H _ ml (emptinessOnly_fn _) t, pruneBy_fn]; rfl

/-- both filters together = remove the named directories, then the (recursively) empty ones:
    a directory that becomes empty only because its named children went away goes away too -/
theorem filter_both_eq_prune (H : Bytes → Bytes) (nms : List Bytes) (cs : Bool) (ml : Option Nat)
    (t : FsNode) :
    readTreeF H (.namedThenEmpty nms cs) ml t
      = readTreeF H .acceptAll ml (pruneEmpty (pruneNamed nms cs t)) := by
  unfold readTreeF
  rw [readTree_eq_prune H _ ml (emptinessOnly_fn _) t, pruneBy_fn]; rfl

/-- all four at once, on the `Filter` datatype -/
theorem filter_shipped_eq_prune (H : Bytes → Bytes) (flt : Filter) (ml : Option Nat) (t : FsNode) :
    readTreeF H flt ml t = readTreeF H .acceptAll ml (flt.prune t) := by
  unfold readTreeF
  rw [readTree_eq_prune H _ ml (emptinessOnly_fn _) t, pruneBy_fn]; rfl

/-- consequence spelt out: same root id, same node at every path -/
theorem filter_eq_prune_lookup (H : Bytes → Bytes) (flt : Filter) (ml : Option Nat) (t : FsNode)
    (r : Result) (h : readTreeF H flt ml t = .ok r) :
    ∃ r', readTreeF H .acceptAll ml (flt.prune t) = .ok r' ∧ rootId H r' = rootId H r ∧
      ∀ path, lookup r' path = lookup r path := by
  rw [filter_shipped_eq_prune] at h
  exact ⟨r, h, rfl, fun _ => rfl⟩

/-- the top directory is never removed, whatever the filter says about it -/
theorem top_never_filtered (H : Bytes → Bytes) (f : PathFilter) (es : List (Bytes × FsNode)) :
    ∃ m, readTree H f none (.dir es) = .ok (.directory m) := by
  rw [readTree_eq, (bad_none f).2]; simp [refilter]

/-- a symbolic link longer than the limit, in a directory that is read, makes the read fail -/
theorem symlink_too_large_raises (H : Bytes → Bytes) (n : Bytes) (target : Bytes) (m : Nat)
    (rest : List (Bytes × FsNode)) (h : m < target.length) :
    readTree H acceptAllPaths (some m) (.dir ((n, .symlink target) :: rest)) = .error .symlinkTooLarge := by
  rw [readTree_eq]
  simp [badL, bad, accepts, acceptAllPaths, tooLarge, h]

/-! ### export -/

/-- **8a. Closed under reference**, without assuming `H` injective: every entry of every
    exported directory has the id of an exported content, skipped content or directory. -/
theorem export_closed (H : Bytes → Bytes) (r : Result) :
    ∀ d ∈ (iterDirectory H r).2.2, ∀ e ∈ d.entries,
      (∃ c ∈ (iterDirectory H r).1, c.sha1git = e.target) ∨
      (∃ s ∈ (iterDirectory H r).2.1, s.sha1git = e.target) ∨
      (∃ d' ∈ (iterDirectory H r).2.2, d'.id = e.target) := by
  intro d hd e he
  simp only [iterDirectory] at hd he ⊢
  obtain ⟨es, hes, rfl⟩ := (mem_dirObjs H d _).mp hd
  have he' : e ∈ entriesOf H es := (sortByKey_perm entryKey _).mem_iff.mp he
  obtain ⟨p, hp, rfl⟩ := (mem_entriesOf H e es).mp he'
  obtain ⟨m, hm, hmid⟩ := (iterTree_inv H r).2.2.2 es hes p hp
  rw [mkEntry_target, ← hmid]
  exact exported_of_mem H _ m hm

/-- the root itself is exported (under its id) -/
theorem export_root (H : Bytes → Bytes) (r : Result) :
    ∃ m ∈ iterTree H r, m.id H = rootId H r := (iterTree_inv H r).2.2.1

/-- **8b. Once per id**: `iter_tree(dedup=True)` never yields two nodes with the same hash;
    hence the ids of the three exported lists, taken together, are pairwise distinct. -/
theorem export_unique_ids (H : Bytes → Bytes) (r : Result) :
    ((iterTree H r).map (RNode.id H)).Nodup ∧
    ((iterDirectory H r).1.map (·.sha1git) ++ (iterDirectory H r).2.1.map (·.sha1git) ++
      (iterDirectory H r).2.2.map (·.id)).Nodup := by
  refine ⟨(iterTree_inv H r).1, ?_⟩
  exact (exported_ids_perm H (iterTree H r)).nodup_iff.mpr (iterTree_inv H r).1

/-- **8c. Integrity**: every exported directory and content passes its check — whatever the
    filter and the size limit. -/
theorem export_check (H : Bytes → Bytes) (f : PathFilter) (ml : Option Nat) (t : FsNode) (r : Result)
    (h : readTree H f ml t = .ok r) :
    (∀ d ∈ (iterDirectory H r).2.2, d.check H = true) ∧
    (∀ c ∈ (iterDirectory H r).1, c.check H = true) := by
  refine ⟨?_, ?_⟩
  · intro d hd
    obtain ⟨es, _, rfl⟩ := (mem_dirObjs H d _).mp hd
    exact toModelDir_check H es
  · intro c hc
    obtain ⟨cc, hcc, _, rfl⟩ := (mem_contentObjs c _).mp hc
    obtain ⟨s, _, _, hread⟩ := fromDisk_readTree H f ml t r h cc ((iterTree_inv H r).2.1 _ hcc)
    have := (good_of_readNode H ml s cc hread).1
    simp [ContentObj.check, this.1, this.2.1]

/-- **8d. Content data**: an exported content's data — held in memory (link text, empty special
    file) or re-read from disk (regular file) — is the bytes of a non-directory of the tree, and
    its id and length are those of these bytes; it is not longer than the limit when it comes
    from a regular file. -/
theorem content_data (H : Bytes → Bytes) (f : PathFilter) (ml : Option Nat) (t : FsNode) (r : Result)
    (h : readTree H f ml t = .ok r) :
    ∀ c ∈ (iterDirectory H r).1, ∃ s, FsSub s t ∧ s.bytes = some c.data ∧
      c.sha1git = H (Hash.gitBlob c.data) ∧ c.length = c.data.length := by
  intro c hc
  obtain ⟨cc, hcc, _, rfl⟩ := (mem_contentObjs c _).mp hc
  obtain ⟨s, hs, _, hread⟩ := fromDisk_readTree H f ml t r h cc ((iterTree_inv H r).2.1 _ hcc)
  have := good_of_readNode H ml s cc hread
  exact ⟨s, hs, this.2, this.1.1, this.1.2.1⟩

/-- **8e. Skipped contents**: an exported skipped content comes from a regular file of the tree
    that is longer than the limit, and carries the git blob id and the length of its bytes. -/
theorem skipped_content (H : Bytes → Bytes) (f : PathFilter) (ml : Option Nat) (t : FsNode) (r : Result)
    (h : readTree H f ml t = .ok r) :
    ∀ o ∈ (iterDirectory H r).2.1, ∃ mode data limit, FsSub (.file mode data) t ∧ ml = some limit ∧
      limit < data.length ∧ o.sha1git = H (Hash.gitBlob data) ∧ o.length = data.length := by
  intro o ho
  obtain ⟨cc, hcc, hsk, rfl⟩ := (mem_skippedObjs o _).mp ho
  obtain ⟨s, hs, _, hread⟩ := fromDisk_readTree H f ml t r h cc ((iterTree_inv H r).2.1 _ hcc)
  cases s with
  | dir es => simp [readNode, walkP] at hread
  | symlink x => simp only [readNode, walkP, RNode.content.injEq] at hread; subst hread; simp [fromBytes] at hsk
  | special m => simp only [readNode, walkP, RNode.content.injEq] at hread; subst hread; simp [fromBytes] at hsk
  | file m d =>
    simp only [readNode, walkP, RNode.content.injEq] at hread; subst hread
    simp only [tooLarge] at hsk
    cases ml with
    | none => simp at hsk
    | some limit => exact ⟨m, d, limit, hs, rfl, by simpa using hsk, rfl, rfl⟩

/-- a regular file longer than the limit is read as a skipped content with the id and length
    it has without limit (no filter; with a filter, through `filter_eq_prune`) -/
theorem file_over_limit (H : Bytes → Bytes) (limit : Nat) (t : FsNode) (r : Result)
    (h : readTree H acceptAllPaths (some limit) t = .ok r) (path : List Bytes)
    (hp : ∀ c ∈ path, c ≠ []) (mode : Nat) (data : Bytes) (hs : t.sub path = some (.file mode data)) :
    ∃ c, lookup r path = some (.content c) ∧ c.skipped = decide (limit < data.length) ∧
      c.sha1git = H (Hash.gitBlob data) ∧ c.length = data.length := by
  have := readTree_acceptAll_ok H (some limit) t r h
  rw [this.1]
  simp only [lookup, lookup_readNode H (some limit) t path hp, hs, Option.map_some]
  exact ⟨_, rfl, rfl, rfl, rfl⟩

/-- **8f. The size limit never changes an id**: a read that succeeds with a limit succeeds
    without, with the same names at every path, the same perms, and the same id for every
    directory and content; only `skipped` flags differ (`unskip` clears them). -/
theorem skipped_keeps_dir_ids (H : Bytes → Bytes) (f : PathFilter) (ml : Option Nat) (t : FsNode)
    (r : Result) (h : readTree H f ml t = .ok r) :
    readTree H f none t = .ok (unskip r) ∧ rootId H (unskip r) = rootId H r ∧
    ∀ path, (lookup (unskip r) path).map (fun n => (n.id H, n.perms, n.isDirectory))
          = (lookup r path).map (fun n => (n.id H, n.perms, n.isDirectory)) := by
  refine ⟨readTree_unskip H f ml t r h, (unskip_id H).1 r, ?_⟩
  intro path
  simp only [lookup, unskip_lookup, Option.map_map]
  congr 1
  funext n
  simp [(unskip_id H).1 n, unskip_perms, unskip_isDirectory]

/-! ## non-vacuity -/

/-- the named filter (case-insensitive) empties `only/`; composed with the empty filter, `only/`
    and `empty/` both go; the physical pruning agrees -/
example (H : Bytes → Bytes) :
    (readTreeF H (.namedThenEmpty [nmModsUp] false) none exTree).toOption.map
        (fun r => (allNodes r).map (·.1))
      = some [[], [nmA0], [nmA], [nmA, nmX], [nmADot], [nmLink], [nmFifo], [nmDup1], [nmDup2], [nmG]] ∧
    (readTreeF H (.ignoreNamed [nmModsUp] false) none exTree).toOption.map
        (fun r => (allNodes r).map (·.1))
      = some [[], [nmA0], [nmA], [nmA, nmX], [nmEmpty], [nmADot], [nmOnly], [nmLink], [nmFifo],
          [nmDup1], [nmDup2], [nmG]] ∧
    (readTreeF H (.ignoreNamed [nmModsUp] true) none exTree).toOption.map
        (fun r => ((allNodes r).map (·.1)).length) = some 14 ∧
    (readTreeF H .ignoreEmpty none exTree).toOption.map
        (fun r => (allNodes r).map (·.1))
      = some [[], [nmA0], [nmA], [nmA, nmX], [nmADot], [nmOnly], [nmOnly, nmMods],
          [nmOnly, nmMods, nmM], [nmLink], [nmFifo], [nmDup1], [nmDup2], [nmG]] := by
  refine ⟨rfl, rfl, rfl, rfl⟩

example : (pruneEmpty (pruneNamed [nmMods] true exTree)).sub [nmOnly] = none ∧
    ((pruneNamed [nmMods] true exTree).sub [nmOnly]).map FsNode.entryNames = some (some []) := by
  refine ⟨rfl, rfl⟩

/-- size limit 3: `same` (4 bytes) is skipped, `dot` (3 bytes) is not; the symlink `a/x`
    (3 bytes) passes; with limit 2 the symlink makes the read fail -/
example (H : Bytes → Bytes) :
    (readTreeF H .acceptAll (some 3) exTree).toOption.map
        (fun r => ((lookup r [nmDup1]).map RNode.kind, (lookup r [nmADot]).map RNode.kind))
      = some (some .skippedContent, some .content) ∧
    readTreeF H .acceptAll (some 2) exTree = .error .symlinkTooLarge := by
  refine ⟨rfl, rfl⟩

/-- de-duplication is by hash, not by node: with the (very non-injective) hash "first byte of the
    manifest" every content has id `b"b"` and every directory `b"t"`; of the 14 nodes of the
    example tree exactly one directory and one content are exported — and the export is still
    closed (`export_closed` needs no injectivity) -/
example :
    (iterTree (fun b => b.take 1) (readNode (fun b => b.take 1) none exTree)).map (RNode.id (fun b => b.take 1))
      = [asc ['t'], asc ['b']] ∧
    (allNodes (readNode (fun b => b.take 1) none exTree)).length = 14 := by decide

/-- two exported contents never share an id; in particular two files with equal bytes
    (`dup1`, `dup2` of the example tree) are exported once -/
example (H : Bytes → Bytes) (r : Result) : ((iterDirectory H r).1.map (·.sha1git)).Nodup := by
  have := (export_unique_ids H r).2
  rw [List.append_assoc] at this
  exact (List.nodup_append.mp this).1

end Swh.C13
