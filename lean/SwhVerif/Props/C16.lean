import SwhVerif.Lemmas.Time
/-!
# C16 — Timestamps and UTC offsets convert exactly in every direction
-/
namespace Swh.C16
open Swh

/-- **Offset round trip**: for every offset in the 16-bit range and every flag that the
    constructor accepts (negative-UTC only with a non-positive offset), the numeric form
    round-trips through the `±HHMM` bytes.  A general arithmetic proof, not an enumeration. -/
theorem offset_roundtrip (o : Int) (f : Bool) (hlo : -32768 ≤ o) (hhi : o ≤ 32767)
    (hf : f = true → o ≤ 0) : parseOffsetBytes (formatOffset o f) = .ok o := by
  unfold formatOffset
  simp only
  have hm : o.natAbs % 60 < 60 := Nat.mod_lt _ (by omega)
  have hsplit : (o.natAbs / 60 : Nat) * 60 + o.natAbs % 60 = o.natAbs := by omega
  by_cases hneg : (decide (o < 0) || f) = true
  · simp only [hneg, if_true]
    rw [parseOffsetBytes_format bMinus (Or.inr rfl) _ _ hm]
    simp only [if_true]
    have hval : (-1 : Int) * (((o.natAbs / 60 : Nat) : Int) * 60 + ((o.natAbs % 60 : Nat) : Int)) = o := by
      have : (((o.natAbs / 60 : Nat) : Int) * 60 + ((o.natAbs % 60 : Nat) : Int)) = (o.natAbs : Int) := by
        exact_mod_cast hsplit
      rw [this]
      have ho : o ≤ 0 := by
        simp only [Bool.or_eq_true, decide_eq_true_eq] at hneg
        rcases hneg with h | h
        · omega
        · exact hf h
      omega
    rw [hval]
    simp [hlo]; omega
  · simp only [hneg, Bool.false_eq_true, if_false]
    have hb : bPlus ≠ bMinus := by decide
    rw [parseOffsetBytes_format bPlus (Or.inl rfl) _ _ hm]
    simp only [hb, if_false]
    have hval : (1 : Int) * (((o.natAbs / 60 : Nat) : Int) * 60 + ((o.natAbs % 60 : Nat) : Int)) = o := by
      have : (((o.natAbs / 60 : Nat) : Int) * 60 + ((o.natAbs % 60 : Nat) : Int)) = (o.natAbs : Int) := by
        exact_mod_cast hsplit
      rw [this]
      have ho : 0 ≤ o := by
        simp only [Bool.or_eq_true, decide_eq_true_eq, not_or] at hneg
        omega
      omega
    rw [hval]
    simp [hlo]; omega

/-- so the legacy constructor's own assertion holds and it returns those bytes -/
theorem fromNumericOffset_ok (o : Int) (f : Bool) (hlo : -32768 ≤ o) (hhi : o ≤ 32767)
    (hf : f = true → o ≤ 0) : fromNumericOffset o f = .ok (formatOffset o f) := by
  unfold fromNumericOffset; simp [offset_roundtrip o f hlo hhi hf]

/-- `pad2 h ++ pad2 m = "0000"` only for `h = m = 0` -/
theorem pads_zero (h m : Nat) (hm : m < 60)
    (hz : pad2 h ++ pad2 m = [bZero, bZero, bZero, bZero]) : h = 0 ∧ m = 0 := by
  have hml := pad2_length m (by omega)
  have hl := congrArg List.length hz
  simp only [List.length_append, hml, List.length_cons, List.length_nil] at hl
  have hhl : (pad2 h).length = 2 := by omega
  have h1 : pad2 h = [bZero, bZero] := by
    have := congrArg (List.take 2) hz
    rw [← hhl, List.take_left] at this
    rw [this, hhl]; rfl
  have h2 : pad2 m = [bZero, bZero] := by
    have := congrArg (List.drop 2) hz
    rw [← hhl, List.drop_left] at this
    rw [this, hhl]; rfl
  have p1 := parseDec_pad2 h
  have p2 := parseDec_pad2 m
  rw [h1] at p1; rw [h2] at p2
  have e : parseDec [bZero, bZero] = some 0 := by decide
  rw [e] at p1 p2
  simp at p1 p2
  omega

/-- **`-0000` only for negative UTC** -/
theorem minus_zero_iff (o : Int) (f : Bool) :
    formatOffset o f = [bMinus, bZero, bZero, bZero, bZero] ↔ (o = 0 ∧ f = true) := by
  constructor
  · intro h
    unfold formatOffset at h
    simp only at h
    have hm : o.natAbs % 60 < 60 := Nat.mod_lt _ (by omega)
    have hb : bPlus ≠ bMinus := by decide
    by_cases hneg : (decide (o < 0) || f) = true
    · simp only [hneg, if_true, List.cons.injEq, true_and] at h
      have := pads_zero _ _ hm h
      have ho : o = 0 := by omega
      subst ho
      simpa using hneg
    · simp only [hneg, List.cons.injEq] at h
      exact absurd h.1 hb
  · rintro ⟨rfl, rfl⟩
    simp [formatOffset, pad2, dec_lt10, digitByte, bZero]

/-- **Recorded offset bytes are kept verbatim** in the author/committer/tagger line
    (nothing is parsed or normalised on the way to the manifest). -/
theorem offset_bytes_verbatim (fullname : Bytes) (s : Int) (us : Nat) (off : Bytes) :
    formatAuthor fullname (some (s, us, off)) = fullname ++ bSP :: (formatDate s us ++ bSP :: off) := rfl

/-- **Date text is exact**: the text written in manifests is the exact decimal of seconds and
    microseconds — an independent reader gets the pair back, so no digit is rounded and only
    trailing zeros are dropped. -/
theorem formatDate_exact (s : Int) (us : Nat) (hus : us < 1000000) :
    parseDate (formatDate s us) = some (s, us) := by
  have key : ∀ (n : Nat) (neg : Bool),
      parseDate ((if neg then [bMinus] else []) ++ dec n ++
        (if us = 0 then [] else bDot :: rstripZeros (pad6 us)))
        = some ((if neg then -(n : Int) else (n : Int)), us) := by
    intro n neg
    have hhead := dec_head_ne_minus n
    have hne := natBase_ne_nil 8 n
    have hstrip : stripSign ((if neg then [bMinus] else []) ++ dec n ++
          (if us = 0 then [] else bDot :: rstripZeros (pad6 us)))
        = (neg, dec n ++ (if us = 0 then [] else bDot :: rstripZeros (pad6 us))) := by
      cases hd : dec n with
      | nil => exact absurd hd hne
      | cons d ds =>
        have hdm : d ≠ bMinus := hhead d ds hd
        cases neg <;> simp [stripSign, hdm]
    have hfrac : splitFrac (dec n ++ (if us = 0 then [] else bDot :: rstripZeros (pad6 us)))
        = (dec n, if us = 0 then none else some (rstripZeros (pad6 us))) := by
      unfold splitFrac
      by_cases h0 : us = 0
      · simp only [h0, if_true, List.append_nil]
        have hnd : splitFirst bDot (dec n) = none := by
          have hno := dec_no_dot n
          generalize dec n = l at hno
          induction l with
          | nil => rfl
          | cons a l ih =>
            have ha : a ≠ bDot := fun h => hno (by simp [h])
            have := ih (fun h => hno (by simp [h]))
            simp [splitFirst, ha, this]
        rw [hnd]
      · simp only [h0, if_false]
        rw [splitFirst_append _ _ _ (dec_no_dot n)]
    have hpf : parseFrac (if us = 0 then none else some (rstripZeros (pad6 us))) = some us := by
      by_cases h0 : us = 0
      · simp [h0, parseFrac]
      · simp only [h0, if_false, parseFrac]
        have hne' := rstripZeros_pad6_ne_nil us h0
        have hle := rstripZeros_length_le (pad6 us)
        have h6 := pad6_length us hus
        have hemp : (rstripZeros (pad6 us)).isEmpty = false := by
          cases hh : rstripZeros (pad6 us) with
          | nil => exact absurd hh hne'
          | cons _ _ => rfl
        have hlen : ¬ (rstripZeros (pad6 us)).length > 6 := by omega
        simp only [hemp, Bool.false_or, decide_eq_true_eq, hlen, if_false]
        have hdec := rstripZeros_decomp (pad6 us)
        rw [h6] at hdec
        rw [← hdec, parseDec_pad6]
    unfold parseDate
    simp only [hstrip, hfrac, parseDec_dec, hpf]
  unfold formatDate decInt
  by_cases h0 : us = 0
  · simp only [h0, if_true]
    have := key s.natAbs (decide (s < 0))
    simp only [h0, if_true, List.append_nil] at this
    by_cases hs : s < 0
    · simp only [hs, decide_true, if_true] at this ⊢
      rw [show ([bMinus] ++ dec s.natAbs) = bMinus :: dec s.natAbs by rfl] at this
      rw [this]; congr 2; omega
    · simp only [hs, decide_false, if_false, List.nil_append, Bool.false_eq_true] at this ⊢
      rw [this]; congr 2; omega
  · simp only [h0, if_false]
    have hne' := rstripZeros_pad6_ne_nil us h0
    have := key s.natAbs (decide (s < 0))
    simp only [h0, if_false] at this
    have hrs : ∀ pre : Bytes, rstripZeros (pre ++ bDot :: pad6 us) = pre ++ bDot :: rstripZeros (pad6 us) := by
      intro pre
      have : pre ++ bDot :: pad6 us = (pre ++ [bDot]) ++ pad6 us := by simp
      rw [this, rstripZeros_append _ _ hne']; simp
    by_cases hs : s < 0
    · simp only [hs, decide_true, if_true] at this ⊢
      rw [show (bMinus :: dec s.natAbs ++ bDot :: pad6 us) = (bMinus :: dec s.natAbs) ++ bDot :: pad6 us by rfl, hrs]
      rw [show ([bMinus] ++ dec s.natAbs ++ bDot :: rstripZeros (pad6 us))
        = (bMinus :: dec s.natAbs) ++ bDot :: rstripZeros (pad6 us) by rfl] at this
      rw [this]; congr 2; omega
    · simp only [hs, decide_false, if_false, List.nil_append, Bool.false_eq_true] at this ⊢
      rw [hrs, this]; congr 2; omega

/-- whole seconds print as a plain integer (git's own form) -/
theorem formatDate_integer (s : Int) : formatDate s 0 = decInt s := rfl

/-- **Seconds are the floor, microseconds are kept** -/
theorem seconds_floor (d : DT) :
    let (s, us, _) := fromDatetime d
    s * 1000000 ≤ d.utcMicros ∧ d.utcMicros < (s + 1) * 1000000 ∧
      0 ≤ us ∧ us < 1000000 ∧ s * 1000000 + us = d.utcMicros := by
  simp only [fromDatetime]; omega

theorem offset_kept (d : DT) : (fromDatetime d).2.2 = d.offMin := rfl

/-- **Datetime round trip**: model → datetime gives back an equal datetime with the same offset,
    for every whole-minute offset a Python `timezone` can carry (|offset| < 24 h). -/
theorem datetime_roundtrip (d : DT) (h : -1440 < d.offMin ∧ d.offMin < 1440) :
    let (s, us, off) := fromDatetime d
    toDatetime s us off = d := by
  simp only [fromDatetime, toDatetime, h, and_self, if_true]
  cases d with
  | mk u o => simp only [DT.mk.injEq, and_true]; omega

/-- … and datetime → model → datetime → model is stable even for bogus offsets -/
theorem toDatetime_instant (s us off : Int) : (toDatetime s us off).utcMicros = s * 1000000 + us := rfl

/-- **Out-of-range values are rejected, in-range ones accepted** -/
theorem range_reject_iff (s us : Int) :
    (∃ r, mkTimestamp s us = .ok r) ↔
      (Gen.minSeconds ≤ s ∧ s ≤ Gen.maxSeconds ∧ Gen.minMicroseconds ≤ us ∧ us ≤ Gen.maxMicroseconds) := by
  unfold mkTimestamp
  by_cases h1 : Gen.minSeconds ≤ s ∧ s ≤ Gen.maxSeconds
  · by_cases h2 : Gen.minMicroseconds ≤ us ∧ us ≤ Gen.maxMicroseconds
    · simp [h1, h2]
    · have : ¬ (Gen.minSeconds ≤ s ∧ s ≤ Gen.maxSeconds ∧ Gen.minMicroseconds ≤ us ∧ us ≤ Gen.maxMicroseconds) :=
        fun ⟨_, _, a, b⟩ => h2 ⟨a, b⟩
      simp [h1, h2, this]
  · have : ¬ (Gen.minSeconds ≤ s ∧ s ≤ Gen.maxSeconds ∧ Gen.minMicroseconds ≤ us ∧ us ≤ Gen.maxMicroseconds) :=
      fun ⟨a, b, _, _⟩ => h1 ⟨a, b⟩
    simp [h1, this]

/-- the live bounds are the documented ones: 0001-01-02T00:00:00 … 9999-12-31T23:59:59 and
    0 … 999999 (regenerated from the class on every run) -/
theorem bounds_table :
    Gen.minSeconds = -62135510961 ∧ Gen.maxSeconds = 253402297199 ∧
    Gen.minMicroseconds = 0 ∧ Gen.maxMicroseconds = 999999 := by decide

/-- non-vacuity / sanity: concrete values through the theorems' functions -/
example : formatOffset (-330) false = asc ['-','0','5','3','0'] := by
  simp [formatOffset, pad2, dec_lt10, dec_lt100, digitByte, bZero, bMinus, asc]
example : formatDate (-1) 500000 = asc ['-','1','.','5'] := by
  simp [formatDate, decInt, dec, natBase, toBaseRev, pad6, rstripZeros, digitByte, asc, bZero, bDot, bMinus]

end Swh.C16
