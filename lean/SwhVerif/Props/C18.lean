import SwhVerif.Model.Cli
/-!
# C18 — The identify command prints what the library computes, for every option mix
The configuration space is finite (7 argument kinds × 5 types × dereference × filename ×
recursive × 4 verify states × exclude = 2 240); the theorems are closed by exhaustive case
analysis in the kernel, which is a proof for a finite table.
-/
namespace Swh.C18
open Swh.Cli

/-- **Never an unhandled exception** on the in-scope configurations -/
theorem identify_no_crash (c : Cfg) (h : inScope c = true) : identify c ≠ .crash := by
  rcases c with ⟨k, t, d, f, r, v, x⟩
  cases k <;> cases t <;> cases d <;> cases f <;> cases r <;> cases v <;> cases x <;>
    first | (intro hc; cases hc) | (exact absurd h (by decide))

/-- **The command prints the SWHID of the designated object** — the link's target iff
    dereferencing was requested, one line per node iff recursive (on a directory), the name
    column iff requested — or the documented usage error. -/
theorem identify_designated (c : Cfg) (h : inScope c = true) : identify c = expected c := by
  rcases c with ⟨k, t, d, f, r, v, x⟩
  cases k <;> cases t <;> cases d <;> cases f <;> cases r <;> cases v <;> cases x <;>
    first | rfl | (exact absurd h (by decide))

/-- **Usage errors are exactly the documented ones**: recursive identification with
    verification, or for a type other than directory; a `--verify` value that is not a core SWHID. -/
theorem usage_error_iff_documented (c : Cfg) (h : inScope c = true) :
    identify c = .usageError ↔
      (c.verify = .malformed ∨
       (recursiveApplies c = true ∧ (c.verify ≠ .absent ∨ (c.type ≠ .auto ∧ c.type ≠ .directory)))) := by
  rcases c with ⟨k, t, d, f, r, v, x⟩
  cases k <;> cases t <;> cases d <;> cases f <;> cases r <;> cases v <;> cases x <;>
    first | (exact absurd h (by decide)) | decide

def isExit0 : Outcome → Bool | .exit0 _ => true | _ => false
def isExit1 : Outcome → Bool | .exit1 _ => true | _ => false
def isSinglePrint : Outcome → Bool | .print _ false _ => true | _ => false

/-- **Verification exits 0 exactly when the given SWHID equals the computed one** (and 1 exactly
    when it differs; without `--verify` one line is printed) -/
theorem verify_exit_iff (c : Cfg) (h : inScope c = true) (hr : recursiveApplies c = false) :
    isExit0 (identify c) = decide (c.verify = .matching) ∧
    isExit1 (identify c) = decide (c.verify = .nonMatching) ∧
    isSinglePrint (identify c) = decide (c.verify = .absent) := by
  rcases c with ⟨k, t, d, f, r, v, x⟩
  cases k <;> cases t <;> cases d <;> cases f <;> cases r <;> cases v <;> cases x <;>
    first | (exact absurd h (by decide)) | (exact absurd hr (by decide)) | decide

def sameObject : Outcome → Outcome → Bool
  | .print d n _, .print d' n' _ => d = d' && n = n'
  | .exit0 d, .exit0 d' => d = d'
  | .exit1 d, .exit1 d' => d = d'
  | .usageError, .usageError => true
  | _, _ => false

/-- the exclude flag and the filename flag never change which object is designated -/
theorem flags_do_not_change_object (c : Cfg) (f x : Bool) (h : inScope c = true) :
    sameObject (identify c) (identify { c with filename := f, exclude := x }) = true := by
  rcases c with ⟨k, t, d, f0, r, v, x0⟩
  cases k <;> cases t <;> cases d <;> cases f0 <;> cases r <;> cases v <;> cases x0 <;>
    cases f <;> cases x <;> first | (exact absurd h (by decide)) | decide

/-- the CLI option table is the one the model was written for (regenerated from the live
    click command on every run) -/
theorem cli_params :
    Gen.cliParams.map (·.1) = ["follow_symlinks", "show_filename", "obj_type", "exclude_patterns",
      "verify", "recursive", "objects"] ∧
    (Gen.cliParams.find? (·.1 = "obj_type")).map (·.2.2) = some ["auto", "content", "directory", "origin", "snapshot"] ∧
    (Gen.cliParams.find? (·.1 = "follow_symlinks")).map (·.2.1) = some "True" ∧
    (Gen.cliParams.find? (·.1 = "show_filename")).map (·.2.1) = some "True" ∧
    (Gen.cliParams.find? (·.1 = "obj_type")).map (·.2.1) = some "'auto'" := by decide

/-- non-vacuity: the in-scope set is large and contains every argument kind -/
example : inScope ⟨.linkDir, .auto, false, true, false, .absent, true⟩ = true := by decide
example : identify ⟨.linkDir, .auto, false, true, false, .absent, true⟩ = .print .contentOfLinkText false true := by decide
example : identify ⟨.linkDir, .directory, true, false, true, .absent, false⟩ = .print .directory true false := by decide

/-! ### several OBJECT arguments -/

/-- with one OBJECT the command-line model is the single-object model -/
theorem many_single (c : Cmd) (k : ArgKind) (h : c.kinds = [k]) :
    identifyMany c = [identify (c.cfg k c.recursive)] := by
  rcases c with ⟨ks, t, d, f, r, v, x⟩
  simp only at h
  subst h
  cases k <;> cases t <;> cases d <;> cases f <;> cases r <;> cases v <;> cases x <;> rfl

/-- **verification of several objects is a usage error** (documented as unsupported) -/
theorem many_verify_needs_one (c : Cmd) (k k' : ArgKind) (rest : List ArgKind)
    (h : c.kinds = k :: k' :: rest) (hv : c.verify ≠ .absent) :
    identifyMany c = [.usageError] := by
  rcases c with ⟨ks, t, d, f, r, v, x⟩
  simp only at h hv
  subst h
  cases v
  · exact absurd rfl hv
  all_goals simp [identifyMany]

theorem takeUntilError_of_no_error (l : List Outcome) (h : ∀ o ∈ l, o ≠ .usageError) :
    takeUntilError l = l := by
  induction l with
  | nil => rfl
  | cons o t ih =>
    have ho := h o (by simp)
    have ht := ih (fun o' ho' => h o' (by simp [ho']))
    cases o <;> simp_all [takeUntilError]

/-- **one line per OBJECT, in order**: without verification and recursion, with the automatic type,
every argument is identified on its own line as the object it designates -/
theorem many_prints_each (c : Cmd) (k : ArgKind) (rest : List ArgKind) (h : c.kinds = k :: rest)
    (ht : c.type = .auto) (hv : c.verify = .absent) (hr : (c.recursive && isdir k) = false) :
    identifyMany c = (k :: rest).map (fun k' =>
      match designated k' c.deref .auto with
      | some d => .print d false c.filename
      | none => .unspecified) := by
  rcases c with ⟨ks, t, d, f, r, v, x⟩
  simp only at h ht hv hr
  subst h ht hv
  have hstep : ∀ k' : ArgKind, identify (Cmd.cfg ⟨k :: rest, .auto, d, f, r, .absent, x⟩ k' false) =
      (match designated k' d .auto with
        | some dd => Outcome.print dd false f
        | none => Outcome.unspecified) := by
    intro k'
    cases k' <;> cases d <;> cases f <;> rfl
  have hne : ∀ o ∈ (k :: rest).map (fun k' => identify (Cmd.cfg ⟨k :: rest, .auto, d, f, r, .absent, x⟩ k' false)),
      o ≠ Outcome.usageError := by
    intro o ho
    obtain ⟨k', _, rfl⟩ := List.mem_map.mp ho
    rw [hstep k']
    cases k' <;> cases d <;> simp [designated]
  unfold identifyMany
  simp only [hr]
  simp only [show (VerifyOpt.absent = VerifyOpt.malformed) = False from by simp, if_false,
    show ((VerifyOpt.absent ≠ VerifyOpt.absent) ∧ rest ≠ []) = False from by simp]
  rw [takeUntilError_of_no_error _ hne]
  exact List.map_congr_left (fun k' _ => hstep k')

example : identifyMany ⟨[.file, .dir, .linkFile], .auto, false, true, false, .absent, true⟩ =
    [.print .contentOfFile false true, .print .directory false true, .print .contentOfLinkText false true] := by decide
example : identifyMany ⟨[.file, .file], .auto, true, true, false, .matching, false⟩ = [.usageError] := by decide

end Swh.C18
