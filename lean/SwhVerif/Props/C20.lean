import SwhVerif.Model.Toposort
import SwhVerif.Lemmas.Toposort
/-!
# C20 — `toposort` yields every revision exactly once, after all of its parents

`toposort` is the executable model of `swh.model.toposort.toposort` (Kahn's algorithm with a FIFO
queue).  On a well-formed revision log — distinct ids, parent ids all present in the log, acyclic
parent relation — the yielded sequence is a permutation of the log, and every revision is yielded
strictly after a revision carrying each of its parent ids (repeated parent ids allowed).  Because
the model's `while` loop runs on fuel, `toposort_perm` also says the fuel is never exhausted on
such logs.

`#eval` sanity checks (same sequences as `list(toposort(...))` in Python):
```
#eval (toposort [⟨5,[3,3,4]⟩, ⟨4,[1]⟩, ⟨3,[1,2]⟩, ⟨2,[]⟩, ⟨1,[]⟩]).map Rev.id   -- [2, 1, 4, 3, 5]
#eval (toposort [⟨1,[0]⟩, ⟨1,[]⟩, ⟨0,[]⟩]).map Rev.id                           -- [1, 0]  (ill-formed: dup id)
#eval (toposort [⟨1,[2]⟩, ⟨2,[1]⟩, ⟨0,[]⟩]).map Rev.id                          -- [0]     (ill-formed: cycle)
```
-/
namespace Swh.C20
open Swh Swh.Toposort

/-- well-formed revision log: distinct ids, closed under parents, acyclic -/
structure WfLog (log : List Rev) : Prop where
  /-- revision ids are pairwise distinct -/
  ids_nodup : (log.map Rev.id).Nodup
  /-- every parent id is the id of some revision of the log -/
  parents_closed : ∀ r ∈ log, ∀ p ∈ r.parents, ∃ q ∈ log, q.id = p
  /-- the parent relation is acyclic: some rank strictly decreases from child to parent -/
  acyclic : ∃ rank : RevId → Nat, ∀ r ∈ log, ∀ p ∈ r.parents, rank p < rank r.id

/-- **Each revision exactly once**: the output is a permutation of the input log. -/
theorem toposort_perm {log : List Rev} (h : WfLog log) : (toposort log).Perm log := by
  obtain ⟨rank, hrank⟩ := h.acyclic
  exact (toposort_spec log h.ids_nodup h.parents_closed rank hrank).1

/-- **Parents first**: the revision yielded at position `i` has, for each of its parent ids `p`,
    a revision with id `p` yielded at some strictly earlier position `j`. -/
theorem toposort_parents_first {log : List Rev} (h : WfLog log) :
    ∀ (i : Nat) (r : Rev), (toposort log)[i]? = some r → ∀ p ∈ r.parents,
      ∃ j < i, ∃ q, (toposort log)[j]? = some q ∧ q.id = p := by
  intro i r hi p hp
  obtain ⟨rank, hrank⟩ := h.acyclic
  have hpf := (toposort_spec log h.ids_nodup h.parents_closed rank hrank).2
  rcases PFfrom.index _ _ hpf i r hi p hp with h0 | h1
  · cases h0
  · exact h1

/-! ## non-vacuity -/

/-- a merge `5` with a duplicated parent id (`3` twice), two roots (`1`, `2`), listed children
    first (not a topological order) -/
example : WfLog [⟨5, [3, 3, 4]⟩, ⟨4, [1]⟩, ⟨3, [1, 2]⟩, ⟨2, []⟩, ⟨1, []⟩] where
  ids_nodup := by decide
  parents_closed := by decide
  acyclic := ⟨id, by decide⟩

example : (toposort [⟨5, [3, 3, 4]⟩, ⟨4, [1]⟩, ⟨3, [1, 2]⟩, ⟨2, []⟩, ⟨1, []⟩]).map Rev.id
    = [2, 1, 4, 3, 5] := by decide

/-- the hypotheses are needed: with a cycle the cyclic part is never yielded -/
example : (toposort [⟨1, [2]⟩, ⟨2, [1]⟩, ⟨0, []⟩]).map Rev.id = [0] := by decide

end Swh.C20
