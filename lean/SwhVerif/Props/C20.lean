import SwhVerif.Model.Toposort
import SwhVerif.Lemmas.Toposort
import SwhVerif.Model.ToposortGen
import SwhVerif.Lemmas.ToposortGen
/-!
# C20 — `toposort` yields every revision exactly once, after all of its parents

`toposort` is the executable model of `swh.model.toposort.toposort` (Kahn's algorithm with a FIFO
queue).  On a well-formed revision log — distinct ids, parent ids all present in the log, acyclic
parent relation — the yielded sequence is a permutation of the log, and every revision is yielded
strictly after a revision carrying each of its parent ids (repeated parent ids allowed).  Because
the model's `while` loop runs on fuel, `toposort_perm` also says the fuel is never exhausted on
such logs.

The second half of the file lifts both statements from the FIFO model to *every* work-list
discipline (`run_perm`, `run_parents_first`, `run_never_stuck`, over `Swh.ToposortGen.isRun`), so a
harness can validate an implementation's yield order with the checker instead of comparing it with
the FIFO sequence; `fifo_isRun` shows the FIFO model is one such run.

`#eval` sanity checks (same sequences as `list(toposort(...))` in Python):
```
#eval (toposort [⟨5,[3,3,4]⟩, ⟨4,[1]⟩, ⟨3,[1,2]⟩, ⟨2,[]⟩, ⟨1,[]⟩]).map Rev.id   -- [2, 1, 4, 3, 5]
#eval (toposort [⟨1,[0]⟩, ⟨1,[]⟩, ⟨0,[]⟩]).map Rev.id                           -- [1, 0]  (ill-formed: dup id)
#eval (toposort [⟨1,[2]⟩, ⟨2,[1]⟩, ⟨0,[]⟩]).map Rev.id                          -- [0]     (ill-formed: cycle)
```
-/
namespace Swh.C20
open Swh Swh.Toposort

/-- well-formed revision log: distinct ids, closed under parents, acyclic -/
structure WfLog (log : List Rev) : Prop where
  /-- revision ids are pairwise distinct -/
  ids_nodup : (log.map Rev.id).Nodup
  /-- every parent id is the id of some revision of the log -/
  parents_closed : ∀ r ∈ log, ∀ p ∈ r.parents, ∃ q ∈ log, q.id = p
  /-- the parent relation is acyclic: some rank strictly decreases from child to parent -/
  acyclic : ∃ rank : RevId → Nat, ∀ r ∈ log, ∀ p ∈ r.parents, rank p < rank r.id

/-- **Each revision exactly once**: the output is a permutation of the input log. -/
theorem toposort_perm {log : List Rev} (h : WfLog log) : (toposort log).Perm log := by
  obtain ⟨rank, hrank⟩ := h.acyclic
  exact (toposort_spec log h.ids_nodup h.parents_closed rank hrank).1

/-- **Parents first**: the revision yielded at position `i` has, for each of its parent ids `p`,
    a revision with id `p` yielded at some strictly earlier position `j`. -/
theorem toposort_parents_first {log : List Rev} (h : WfLog log) :
    ∀ (i : Nat) (r : Rev), (toposort log)[i]? = some r → ∀ p ∈ r.parents,
      ∃ j < i, ∃ q, (toposort log)[j]? = some q ∧ q.id = p := by
  intro i r hi p hp
  obtain ⟨rank, hrank⟩ := h.acyclic
  have hpf := (toposort_spec log h.ids_nodup h.parents_closed rank hrank).2
  rcases PFfrom.index _ _ hpf i r hi p hp with h0 | h1
  · cases h0
  · exact h1

/-! ## non-vacuity -/

/-- a merge `5` with a duplicated parent id (`3` twice), two roots (`1`, `2`), listed children
    first (not a topological order) -/
example : WfLog [⟨5, [3, 3, 4]⟩, ⟨4, [1]⟩, ⟨3, [1, 2]⟩, ⟨2, []⟩, ⟨1, []⟩] where
  ids_nodup := by decide
  parents_closed := by decide
  acyclic := ⟨id, by decide⟩

example : (toposort [⟨5, [3, 3, 4]⟩, ⟨4, [1]⟩, ⟨3, [1, 2]⟩, ⟨2, []⟩, ⟨1, []⟩]).map Rev.id
    = [2, 1, 4, 3, 5] := by decide

/-- the hypotheses are needed: with a cycle the cyclic part is never yielded -/
example : (toposort [⟨1, [2]⟩, ⟨2, [1]⟩, ⟨0, []⟩]).map Rev.id = [0] := by decide

/-! ## any work-list discipline

`Swh.ToposortGen` abstracts the FIFO queue into a bag: a step may pop *any* enqueued revision and
put the newly ready children *anywhere*.  `isRun log order` is the executable checker that replays
a yield sequence against that abstract algorithm (the bag is a `List Rev` compared on whole
revisions, one occurrence consumed per yield by `List.erase`; at the end the bag must be empty), and
`isRun_iff_scheduled` says it accepts exactly the yield sequences of complete scheduled runs.  The
theorems below are the generalisation of `toposort_perm` / `toposort_parents_first` to every such
run; the FIFO model is one of them (`fifo_isRun`), and so is a stack (`lifo_isRun`). -/

open Swh.ToposortGen

/-- **Each revision exactly once, whatever the discipline**: a complete run of the abstract
    algorithm is a permutation of the log. -/
theorem run_perm {log order : List Rev} (h : WfLog log) (hr : isRun log order = true) :
    order.Perm log := by
  obtain ⟨rank, hrank⟩ := h.acyclic
  exact (run_spec h.ids_nodup h.parents_closed rank hrank hr).1

/-- **Parents first, whatever the discipline.** -/
theorem run_parents_first {log order : List Rev} (h : WfLog log) (hr : isRun log order = true) :
    ∀ (i : Nat) (r : Rev), order[i]? = some r → ∀ p ∈ r.parents,
      ∃ j < i, ∃ q, order[j]? = some q ∧ q.id = p := by
  intro i r hi p hp
  obtain ⟨rank, hrank⟩ := h.acyclic
  have hpf := (run_spec h.ids_nodup h.parents_closed rank hrank hr).2
  rcases PFfrom.index _ _ hpf i r hi p hp with h0 | h1
  · cases h0
  · exact h1

/-- **Progress**: in the state `s` reached after any prefix `pre` accepted by the replay (i.e. any
    reachable state of a partial run), if some revision of the log has not been yielded yet then the
    work bag is not empty — the algorithm cannot get stuck before it has yielded everything. -/
theorem run_never_stuck {log pre : List Rev} {s : WState} (h : WfLog log)
    (hp : replay (initPass log).children (init log) pre = some s)
    (hn : ∃ r ∈ log, r ∉ pre) : s.work ≠ [] := by
  intro hw
  obtain ⟨rank, hrank⟩ := h.acyclic
  obtain ⟨r, hr, hnr⟩ := hn
  have := never_stuck h.ids_nodup h.parents_closed rank hrank hp hw
  exact hnr (this.mem_iff.mpr hr)

/-- the same, counting: an accepted prefix never has more than `|log|` elements, and while it has
    fewer the bag is not empty -/
theorem run_never_stuck_length {log pre : List Rev} {s : WState} (h : WfLog log)
    (hp : replay (initPass log).children (init log) pre = some s) :
    pre.length ≤ log.length ∧ (pre.length < log.length → s.work ≠ []) := by
  refine ⟨(replay_init_inv h.ids_nodup hp).1.length_le, ?_⟩
  intro hlt hw
  obtain ⟨rank, hrank⟩ := h.acyclic
  have := (never_stuck h.ids_nodup h.parents_closed rank hrank hp hw).length_eq
  omega

/-- what "accepted prefix" means: every yielded revision was in the bag, and its parents had all
    been yielded -/
theorem prefix_parents_first {log pre : List Rev} {s : WState} (h : WfLog log)
    (hp : replay (initPass log).children (init log) pre = some s) :
    pre.Nodup ∧ (∀ r ∈ pre, r ∈ log) ∧
    ∀ (i : Nat) (r : Rev), pre[i]? = some r → ∀ p ∈ r.parents,
      ∃ j < i, ∃ q, pre[j]? = some q ∧ q.id = p := by
  obtain ⟨i1, i2⟩ := replay_init_inv h.ids_nodup hp
  refine ⟨(List.nodup_append.mp i1.nodup).1, fun r hr => i1.sub r (by simp [hr]), ?_⟩
  intro i r hi p hpp
  rcases PFfrom.index _ _ i2 i r hi p hpp with h0 | h1
  · cases h0
  · exact h1

/-- **Every partial run can be completed**: an accepted prefix extends to an accepted complete run
    (which by `run_perm` is a permutation of the log). -/
theorem run_extends {log pre : List Rev} {s : WState} (h : WfLog log)
    (hp : replay (initPass log).children (init log) pre = some s) :
    ∃ rest, isRun log (pre ++ rest) = true :=
  ToposortGen.run_extends h.ids_nodup _ pre s hp (Nat.le_refl _)

/-- **The FIFO model is one of the runs**, so `toposort_perm` and `toposort_parents_first` are
    instances of `run_perm` and `run_parents_first`.  Only the distinctness of the ids is used
    (`Swh.ToposortGen.fifo_isRun_of_nodup`): it bounds the number of yields, hence shows the fuel of
    the model is not exhausted. -/
theorem fifo_isRun (log : List Rev) (h : WfLog log) : isRun log (toposort log) = true :=
  fifo_isRun_of_nodup log h.ids_nodup

/-- a stack instead of the deque (pop the most recently pushed revision) is another run -/
theorem lifo_isRun (log : List Rev) (h : WfLog log) :
    isRun log (toposortBy (fun w => w.length - 1) log) = true :=
  toposortBy_isRun_of_nodup _ (fun w hw => by
    have := List.length_pos_iff.mpr hw
    omega) log h.ids_nodup

/-- any deterministic choice of the popped position is a run -/
theorem toposortBy_isRun (pick : List Rev → Nat) (hpick : ∀ w, w ≠ [] → pick w < w.length)
    (log : List Rev) (h : WfLog log) : isRun log (toposortBy pick log) = true :=
  toposortBy_isRun_of_nodup pick hpick log h.ids_nodup

/-- the checker is exact (restated from `Swh.ToposortGen`): it accepts `order` iff some schedule —
    a choice of the popped position and of where the newly ready children go, at every step — yields
    `order` and ends with an empty work list -/
theorem isRun_exact (log order : List Rev) : isRun log order = true ↔ IsScheduledRun log order :=
  isRun_iff_scheduled log order

/-! ### non-vacuity of the generalisation -/

/-- the FIFO order is accepted -/
example : isRun [⟨5, [3, 3, 4]⟩, ⟨4, [1]⟩, ⟨3, [1, 2]⟩, ⟨2, []⟩, ⟨1, []⟩]
    [⟨2, []⟩, ⟨1, []⟩, ⟨4, [1]⟩, ⟨3, [1, 2]⟩, ⟨5, [3, 3, 4]⟩] = true := by decide

/-- a depth-first (stack) order `[1,4,2,3,5]`, different from the FIFO one, is accepted too -/
example : isRun [⟨5, [3, 3, 4]⟩, ⟨4, [1]⟩, ⟨3, [1, 2]⟩, ⟨2, []⟩, ⟨1, []⟩]
    [⟨1, []⟩, ⟨4, [1]⟩, ⟨2, []⟩, ⟨3, [1, 2]⟩, ⟨5, [3, 3, 4]⟩] = true := by decide

/-- and it is the order the stack instance computes -/
example : (toposortBy (fun w => w.length - 1)
      [⟨5, [3, 3, 4]⟩, ⟨4, [1]⟩, ⟨3, [1, 2]⟩, ⟨2, []⟩, ⟨1, []⟩]).map Rev.id
    = [1, 4, 2, 3, 5] := by decide

/-- rejected: a child (`4`) before its parent (`1`) -/
example : isRun [⟨5, [3, 3, 4]⟩, ⟨4, [1]⟩, ⟨3, [1, 2]⟩, ⟨2, []⟩, ⟨1, []⟩]
    [⟨2, []⟩, ⟨4, [1]⟩, ⟨1, []⟩, ⟨3, [1, 2]⟩, ⟨5, [3, 3, 4]⟩] = false := by decide

/-- rejected: a revision (`5`) missing — the bag is not empty at the end -/
example : isRun [⟨5, [3, 3, 4]⟩, ⟨4, [1]⟩, ⟨3, [1, 2]⟩, ⟨2, []⟩, ⟨1, []⟩]
    [⟨2, []⟩, ⟨1, []⟩, ⟨4, [1]⟩, ⟨3, [1, 2]⟩] = false := by decide

/-- rejected: a revision yielded twice -/
example : isRun [⟨5, [3, 3, 4]⟩, ⟨4, [1]⟩, ⟨3, [1, 2]⟩, ⟨2, []⟩, ⟨1, []⟩]
    [⟨2, []⟩, ⟨1, []⟩, ⟨1, []⟩, ⟨4, [1]⟩, ⟨3, [1, 2]⟩, ⟨5, [3, 3, 4]⟩] = false := by decide

/-- rejected: `5` released after only one of its two decrements from `3` would be wrong — here `5`
    right after `4`, before `3` -/
example : isRun [⟨5, [3, 3, 4]⟩, ⟨4, [1]⟩, ⟨3, [1, 2]⟩, ⟨2, []⟩, ⟨1, []⟩]
    [⟨2, []⟩, ⟨1, []⟩, ⟨4, [1]⟩, ⟨5, [3, 3, 4]⟩, ⟨3, [1, 2]⟩] = false := by decide

/-- rejected: same id but a different parent list is not the revision of the log -/
example : isRun [⟨2, [1]⟩, ⟨1, []⟩] [⟨1, []⟩, ⟨2, []⟩] = false := by decide

end Swh.C20
