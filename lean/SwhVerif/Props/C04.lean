import SwhVerif.Lemmas.Manifests
/-!
# C04 — Release ids are git tag ids for every field combination
`releaseId H r = H (releaseManifest r)`.  The synthetic flag, metadata and split name/email are
not arguments of the model function.  No hypothesis is needed: every header key is fixed.
-/
namespace Swh.C04
open Swh

def releaseId (H : Bytes → Bytes) (r : RelAttrs) : Bytes := H (releaseManifest r)

def expectedParse (r : RelAttrs) : ParsedTag :=
  ⟨hexLower r.target, r.targetType, r.name, r.author.map (fun a => personLine a r.date), r.message⟩

theorem releaseHeaders_wf (r : RelAttrs) : ∀ kv ∈ releaseHeaders r, wfKey kv.1 = true := by
  intro kv hkv
  unfold releaseHeaders at hkv
  simp only [List.mem_append, List.mem_cons, List.not_mem_nil, or_false] at hkv
  rcases hkv with (rfl | rfl | rfl) | h
  · exact (by decide : wfKey kObject = true)
  · exact (by decide : wfKey kType = true)
  · exact (by decide : wfKey kTag = true)
  · cases ha : r.author with
    | none => simp [ha] at h
    | some a => simp [ha] at h; subst h; exact (by decide : wfKey kTagger = true)

/-- **An independent tag parser recovers object, type, tag name, tagger line and message** for
    all target types, tagger/date present or absent, message absent/empty/arbitrary; names,
    taggers and messages over arbitrary bytes including newlines. -/
theorem parseTag_releaseManifest (r : RelAttrs) :
    parseTag (releaseManifest r) = some (expectedParse r) := by
  unfold parseTag releaseManifest
  rw [stripGitHeader_gitObject tagTy _ (by decide)]
  simp only
  unfold releaseBody
  rw [parseHeaders_fmtHeaders _ _ (releaseHeaders_wf r)]
  simp only
  unfold parseTagHs releaseHeaders expectedParse
  simp only [List.cons_append, List.nil_append, takeKey_hit]
  cases ha : r.author <;> simp only [Option.map]
  · rw [takeKeyOpt_miss _ _ (headKeyNe_nil _)]; rfl
  · rw [takeKeyOpt_hit]; rfl

theorem releaseManifest_injective (r r' : RelAttrs)
    (h : releaseManifest r = releaseManifest r') : expectedParse r = expectedParse r' := by
  have a := parseTag_releaseManifest r
  rw [h, parseTag_releaseManifest r'] at a
  exact (Option.some.inj a).symm

/-- **Target-type table** (regenerated from the live `target_type_to_git` on every run):
    content→blob, directory→tree, revision→commit, release→tag, snapshot→refs. -/
theorem targetTypeToGit_table :
    Gen.targetTypeToGitB =
      [(asc ['c','o','n','t','e','n','t'], asc ['b','l','o','b']),
       (asc ['d','i','r','e','c','t','o','r','y'], asc ['t','r','e','e']),
       (asc ['r','e','v','i','s','i','o','n'], asc ['c','o','m','m','i','t']),
       (asc ['r','e','l','e','a','s','e'], asc ['t','a','g']),
       (asc ['s','n','a','p','s','h','o','t'], asc ['r','e','f','s'])] := by decide

/-- the table is injective: different target types never print the same `type` line -/
theorem targetTypeToGit_injective :
    (Gen.targetTypeToGitB.map (·.2)).Nodup ∧ (Gen.targetTypeToGitB.map (·.1)).Nodup := by decide

/-- a date without a tagger is never written -/
theorem date_needs_tagger (r : RelAttrs) (d d' : Option DateV) (h : r.author = none) :
    releaseManifest { r with date := d } = releaseManifest { r with date := d' } := by
  simp [releaseManifest, releaseBody, releaseHeaders, h]

/-- non-vacuity: a tag whose name and tagger contain newlines, tagger without date -/
example : parseTag (releaseManifest
    ⟨List.replicate 20 9, asc ['c','o','m','m','i','t'], asc ['v','\n','1'], some (asc ['T','\n']), none, some (asc ['\n','m'])⟩)
    = some ⟨hexLower (List.replicate 20 9), asc ['c','o','m','m','i','t'], asc ['v','\n','1'],
        some (asc ['T','\n']), some (asc ['\n','m'])⟩ :=
  parseTag_releaseManifest _

end Swh.C04
