import SwhVerif.Lemmas.FsPerm
import SwhVerif.Lemmas.FsPerm2
import SwhVerif.Lemmas.FsGit
import SwhVerif.Lemmas.FsTop
import SwhVerif.Lemmas.FsExample
import SwhVerif.Lemmas.FsWalk6
/-!
# C06 — a directory read from disk gets git's tree id

Model: `SwhVerif/Model/Fs.lean`.  `FsNode` is what the operating system reports (`mode` = full
`st_mode`, `dir` lists its entries **in `os.scandir` order**); `readTree H f maxLen top` is
`Directory.from_disk(path=top, path_filter=f, max_content_length=maxLen)`; `H` is the hash
(uninterpreted here, `sha1` in the driver); `readNode H maxLen t` is the reading of one node
without filter (`Content.from_file` for a non-directory, the `Directory` of the readings of the
children for a directory) — by `readTree_is_readNode` it is what `readTree` returns.

* listing order: `readNode_order_indep`;
* modes, symbolic links, special files, (empty) sub-directories: `readNode_modes`,
  `symlink_not_followed`, `readNode_dir_entries`;
* trailing slashes: `normalizeTop_slashes`, `normalizeTop_root_slashes`;
* `directory[b"a/b"]`: `nested_lookup`;
* git: `pruneEmpty_git` (the specification `gitTreeOf` is written from git's rules: index
  entries, `create_ce_mode`, `base_name_compare`);
* the explicit-stack / breadth-first code against the structural reader: `walk_eq_recursive`.

Not in the model (carried by the correspondence test): the command line, `os.scandir` and
`lstat` themselves, what a symbolic link points to (a `symlink` node has a text and nothing
else, so "never followed" is true by construction of `FsNode`).
-/
namespace Swh.C06
open Swh Swh.Fs

/-- what the property observes of the result at a path: `none` if `directory[path]` raises,
    else kind, id, perms; the reader's own error is kept -/
def obsAt (H : Bytes → Bytes) (res : Except Err Result) (path : List Bytes) :
    Except Err (Option (Kind × Bytes × Nat)) :=
  match res with
  | .error e => .error e
  | .ok r => .ok ((lookup r path).map (RNode.obs H))

/-- a successful unfiltered read of a directory is `readNode` of it -/
theorem readTree_is_readNode (H : Bytes → Bytes) (ml : Option Nat) (t : FsNode) (r : Result)
    (h : readTree H acceptAllPaths ml t = .ok r) : r = readNode H ml t :=
  (readTree_acceptAll_ok H ml t r h).1

/-- without size limit the unfiltered read of a directory always succeeds -/
theorem readTree_total (H : Bytes → Bytes) (es : List (Bytes × FsNode)) :
    readTree H acceptAllPaths none (.dir es) = .ok (readNode H none (.dir es)) :=
  readTree_acceptAll_none H es

/-- **1. Listing order.**  If `t'` is `t` with the listing of any directory at any depth
    permuted, reading gives the same outcome: same error if any, else the same root id
    (`path = []`) and the same kind, id and perms at every path. -/
theorem readNode_order_indep (H : Bytes → Bytes) (ml : Option Nat) {t t' : FsNode}
    (hp : FsPerm t t') (hw : WfFs t) (path : List Bytes) (hpath : ∀ c ∈ path, c ≠ []) :
    obsAt H (readTree H acceptAllPaths ml t) path = obsAt H (readTree H acceptAllPaths ml t') path := by
  cases hp with
  | file m d => rfl
  | symlink x => rfl
  | special m => rfl
  | dir es es' hn hch =>
    have hperm : FsPerm (.dir es) (.dir es') := FsPerm.dir es es' hn hch
    have hb := bad_perm ml hperm hw
    simp only [bad] at hb
    rw [readTree_eq, readTree_eq, hb]
    by_cases hbad : badL acceptAllPaths ml es'
    · simp [hbad, obsAt]
    · simp only [hbad, Bool.false_eq_true, if_false, obsAt, refilter_acceptAll.1, Except.ok.injEq, lookup]
      have := lookup_obs_perm H ml hperm hw path hpath
      simpa [readNode, walkP] using this

/-- **1'. Listing order, with a filter.**  The same holds for every filter that looks at a
    listing through its emptiness only — the three shipped filters and their conjunctions
    (`emptinessOnly_fn`): both passes are insensitive to the listing order. -/
theorem readTree_order_indep (H : Bytes → Bytes) (f : PathFilter) (hf : EmptinessOnly f) (ml : Option Nat)
    {t t' : FsNode} (hp : FsPerm t t') (hw : WfFs t) (path : List Bytes) (hpath : ∀ c ∈ path, c ≠ []) :
    obsAt H (readTree H f ml t) path = obsAt H (readTree H f ml t') path := by
  rw [readTree_eq_prune H f ml hf t, readTree_eq_prune H f ml hf t']
  exact readNode_order_indep H ml (hp.pruneBy f hf hw) (wf_pruneBy f t hw) path hpath

/-- the root ids are equal (special case `path = []`) -/
theorem rootId_order_indep (H : Bytes → Bytes) {es es' : List (Bytes × FsNode)}
    (hp : FsPerm (.dir es) (.dir es')) (hw : WfFs (.dir es)) :
    rootId H (readNode H none (.dir es)) = rootId H (readNode H none (.dir es')) := by
  have := readNode_obs_perm H none hp hw
  simp only [RNode.obs, Prod.mk.injEq] at this
  exact this.2.1

/-- **2. Modes.**  A regular file is a content of its bytes, `100755` when any execute bit is
    set, else `100644`; a special file is the empty content, with the same test on its own
    mode; both whatever the size limit says about `skipped`. -/
theorem readNode_modes (H : Bytes → Bytes) (ml : Option Nat) :
    (∀ mode data, isReg mode = true →
      ∃ c, readNode H ml (.file mode data) = .content c ∧
        c.sha1git = H (Hash.gitBlob data) ∧ c.data = data ∧ c.length = data.length ∧
        c.perms = (if mode &&& 0o111 ≠ 0 then Gen.perms_executable_content else Gen.perms_content)) ∧
    (∀ mode, isReg mode = false → isDir mode = false → isLnk mode = false →
      ∃ c, readNode H ml (.special mode) = .content c ∧
        c.sha1git = H (Hash.gitBlob []) ∧ c.data = [] ∧ c.length = 0 ∧ c.skipped = false ∧
        c.perms = (if mode &&& 0o111 ≠ 0 then Gen.perms_executable_content else Gen.perms_content)) := by
  refine ⟨?_, ?_⟩
  · intro mode data hr
    exact ⟨_, rfl, rfl, rfl, rfl, modeToPerms_other mode (isReg_not mode hr).1 (isReg_not mode hr).2⟩
  · intro mode _ hd hl
    exact ⟨_, rfl, rfl, rfl, rfl, rfl, modeToPerms_other mode hl hd⟩

/-- **2'. Symbolic links** are contents of their text with perms `120000`; nothing but the text
    enters the result (the link is never followed: there is nothing to follow in `FsNode`). -/
theorem symlink_not_followed (H : Bytes → Bytes) (target : Bytes) :
    ∃ c, readNode H none (.symlink target) = .content c ∧
      c.sha1git = H (Hash.gitBlob target) ∧ c.data = target ∧ c.length = target.length ∧
      c.perms = Gen.perms_symlink ∧ c.skipped = false :=
  ⟨_, rfl, rfl, rfl, rfl, modeToPerms_symlinkMode, rfl⟩

/-- **2''. Directories.**  A directory is read as one entry per listed child, in listing order:
    `(name, "dir", 40000, id)` for a sub-directory — an empty one included, whose id is the
    hash of the empty tree — and `(name, "file", perms, sha1_git)` otherwise; its id is the
    hash of the manifest of these entries. -/
theorem readNode_dir_entries (H : Bytes → Bytes) (ml : Option Nat) (es : List (Bytes × FsNode)) :
    readNode H ml (.dir es) = .directory (es.map (fun p => (p.1, readNode H ml p.2))) ∧
    rootId H (readNode H ml (.dir es)) = H (dirManifest (es.map (entryFor H ml))) ∧
    (∀ n ces, entryFor H ml (n, .dir ces) =
        ⟨n, .dir, Gen.perms_directory, rootId H (readNode H ml (.dir ces))⟩) ∧
    (∀ n c, c.isDirNode = false → ∃ cc, readNode H ml c = .content cc ∧
        entryFor H ml (n, c) = ⟨n, .file, cc.perms, cc.sha1git⟩) ∧
    rootId H (readNode H ml (.dir [])) = H (dirManifest []) := by
  refine ⟨readNode_dir H ml es, readNode_dir_id H ml es, ?_, ?_, ?_⟩
  · intro n ces; simp [entryFor, readNode_dir, mkEntry, rootId]
  · intro n c hc
    cases c with
    | dir ces => simp [FsNode.isDirNode] at hc
    | file m d => exact ⟨_, rfl, rfl⟩
    | symlink t => exact ⟨_, rfl, rfl⟩
    | special m => exact ⟨_, rfl, rfl⟩
  · exact readNode_dir_id H ml []

/-- **3. Trailing slashes.**  `normalizeTop` is the rewriting of `path` at the start of
    `from_disk`: any number of `'/'` after a non-empty path not ending in `'/'` is removed. -/
theorem normalizeTop_slashes (p : Bytes) (hne : p ≠ []) (h : p.getLast? ≠ some bSlash) (k : Nat) :
    normalizeTop (p ++ List.replicate k bSlash) = normalizeTop p := by
  rw [normalizeTop_append_slashes p hne h k, normalizeTop_id p h]

/-- `"/"`, `"//"`, `"///"`, … all become `"/"` (the code keeps the first byte and strips the
    slashes of the rest) -/
theorem normalizeTop_root_slashes (k : Nat) :
    normalizeTop (bSlash :: List.replicate k bSlash) = [bSlash] := normalizeTop_root k

/-- **4. Nested lookup.**  `directory[b"a/b/…"]` is the reading of the on-disk node at that
    path (and raises exactly when there is none); an empty component (`a//b`, `a/`) stays on
    the current directory. -/
theorem nested_lookup (H : Bytes → Bytes) (ml : Option Nat) (t : FsNode) (r : Result)
    (h : readTree H acceptAllPaths ml t = .ok r) (path : List Bytes) (hp : ∀ c ∈ path, c ≠ []) :
    lookup r path = (t.sub path).map (readNode H ml) := by
  rw [readTree_is_readNode H ml t r h]
  exact lookup_readNode H ml t path hp

theorem nested_lookup_empty_component (es : List (Bytes × RNode)) (rest : List Bytes) :
    lookup (.directory es) ([] :: rest) = lookup (.directory es) rest :=
  lookup_empty_component es rest

/-- a sub-directory found by lookup is what reading that sub-directory alone returns -/
theorem nested_lookup_subdir (H : Bytes → Bytes) (t : FsNode) (r : Result)
    (h : readTree H acceptAllPaths none t = .ok r) (path : List Bytes) (hp : ∀ c ∈ path, c ≠ [])
    (ses : List (Bytes × FsNode)) (hs : t.sub path = some (.dir ses)) :
    (lookup r path).map Except.ok = some (readTree H acceptAllPaths none (.dir ses)) := by
  rw [nested_lookup H none t r h path hp, hs, readTree_total]; rfl

/-- **5. git.**  On a well-formed tree without special files, without `.git*` names, whose
    executable files are executable by their owner (`gitOk`), reading with
    `ignore_empty_directories` gives the id `git add -A && git write-tree` prints.  This holds
    for a top directory that ends up empty as well: git prints the id of the empty tree, the
    reader keeps an empty top directory, whose id is the same. -/
theorem pruneEmpty_git (H : Bytes → Bytes) (ml : Option Nat) (t : FsNode) (r : Result)
    (hw : WfFs t) (hg : gitOk t = true) (h : readTreeF H .ignoreEmpty ml t = .ok r) :
    gitTreeOf H t = some (rootId H r) := by
  unfold readTreeF at h
  rw [readTree_eq_prune H _ ml (emptinessOnly_fn .ignoreEmpty) t, pruneBy_fn] at h
  cases t with
  | dir es =>
    have := readTree_is_readNode H ml _ r h
    subst this
    exact gitTreeOf_eq H ml es hw hg
  | file m d => simp [Filter.prune, pruneEmpty, readTree] at h
  | symlink x => simp [Filter.prune, pruneEmpty, readTree] at h
  | special m => simp [Filter.prune, pruneEmpty, readTree] at h

/-- without size limit the read of 5. always succeeds -/
theorem pruneEmpty_git_total (H : Bytes → Bytes) (es : List (Bytes × FsNode))
    (hw : WfFs (.dir es)) (hg : gitOk (.dir es) = true) :
    (readTreeF H .ignoreEmpty none (.dir es)).toOption.map (rootId H) = gitTreeOf H (.dir es) := by
  unfold readTreeF
  rw [readTree_eq_prune H _ none (emptinessOnly_fn .ignoreEmpty), pruneBy_fn]
  simp only [Filter.prune, pruneEmpty, readTree_total, Except.toOption, Option.map_some]
  exact (gitTreeOf_eq H none es hw hg).symm

/-- **6. The code's loops against the structural reader.**  `fromDisk` transcribes
    `Directory.from_disk` statement by statement — the `to_visit` stack popped from its end,
    `dirs[root].update(entries)`, the `filtered` list and its `del top_dir[path]`, the
    breadth-first `traversal` list and the `del top_dir[dirpath]` of the reversed walk, with
    `KeyError`/assertion/fuel exhaustion as error values.  On every well-formed tree, for
    *every* filter (no hypothesis on `f`) and size limit, it returns what the structural
    two-pass reader `readTree` returns; in particular none of its internal errors is
    reachable. -/
theorem walk_eq_recursive (H : Bytes → Bytes) (f : PathFilter) (ml : Option Nat) (t : FsNode)
    (hw : WfFs t) : fromDisk H f ml t = readTree H f ml t :=
  fromDisk_eq_readTree H f ml t hw

/-! ## non-vacuity -/

example : WfFs exTree := by decide
example : WfFs exTreeGit ∧ gitOk exTreeGit = true := by decide
example : gitOk exTree = false := by decide

/-- a permuted listing (top reversed) is related to the original -/
example : ∃ es es', exTree = .dir es ∧ es' = es.reverse ∧ FsPerm (.dir es) (.dir es') :=
  ⟨_, _, rfl, rfl, FsPerm.of_perm (by decide) (List.reverse_perm _).symm⟩

/-- what is read: perms of the three kinds of files, the symlink, the fifo, both directories -/
example (H : Bytes → Bytes) :
    ((readNode H none exTree).lookup [nmA0]).map RNode.perms = some 0o100755 ∧
    ((readNode H none exTree).lookup [nmG]).map RNode.perms = some 0o100755 ∧
    ((readNode H none exTree).lookup [nmADot]).map RNode.perms = some 0o100644 ∧
    ((readNode H none exTree).lookup [nmLink]).map RNode.perms = some 0o120000 ∧
    ((readNode H none exTree).lookup [nmFifo]).map (RNode.id H) = some (H (Hash.gitBlob [])) ∧
    ((readNode H none exTree).lookup [nmEmpty]).map (RNode.id H) = some (H (dirManifest [])) ∧
    ((readNode H none exTree).lookup [nmA, nmX]).map (RNode.id H) = some (H (Hash.gitBlob (asc ['i', 'n']))) ∧
    (readNode H none exTree).lookup [nmA, nmA] = none ∧
    (readNode H none exTree).lookup [nmLink, nmX] = none := by
  refine ⟨rfl, rfl, rfl, rfl, rfl, rfl, rfl, rfl, rfl⟩

example : normalizeTop (asc ['t', '/', 'd', '/', '/', '/']) = asc ['t', '/', 'd'] ∧
    normalizeTop (asc ['/', '/']) = asc ['/'] ∧ normalizeTop (asc ['/']) = asc ['/'] ∧
    normalizeTop [] = [] := by decide

/-- names that collide in git order: the tree `a/` sorts between the files `a.` and `a0`
    (`gitSort` is the specification's insertion sort with git's `base_name_compare`; by
    `gitSort_eq` it is the order of the manifest) -/
example : (gitSort [⟨gitModeExec, nmA0, false, []⟩, ⟨gitModeTree, nmA, true, []⟩,
    ⟨gitModeFile, nmADot, false, []⟩]).map (·.name) = [nmADot, nmA, nmA0] := by decide

/-- the as-coded walk on the example tree, compared with the structural reader by evaluation
    (the theorem says so for every tree) -/
example : (fromDisk (fun b => b.take 1) (Filter.fn (.namedThenEmpty [nmModsUp] false)) none exTree).toOption.map
      (fun r => (allNodes r).map (·.1))
    = (readTree (fun b => b.take 1) (Filter.fn (.namedThenEmpty [nmModsUp] false)) none exTree).toOption.map
      (fun r => (allNodes r).map (·.1)) := by decide

end Swh.C06
