import SwhVerif.Lemmas.Snapshot
import SwhVerif.Gen.Tables
/-!
# C05 — Snapshot ids come from a canonical, decodable manifest of the branch map
`snapshotId H bs = H (snapshotIdManifest bs)` is the shape of `Snapshot.compute_hash`
(`ignore_unresolved=True`).  A branch map is an association list with distinct names.
-/
namespace Swh.C05
open Swh

def snapshotId (H : Bytes → Bytes) (bs : List Branch) : Bytes := H (snapshotIdManifest bs)

def DistinctNames (bs : List Branch) : Prop := (bs.map (fun b => b.1)).Nodup

theorem sortBranches_perm (bs bs' : List Branch) (hp : bs.Perm bs') (hd : DistinctNames bs) :
    sortBranches bs = sortBranches bs' :=
  sortByKey_perm_unique _ bs bs' hp (nodup_map_inj (fun b : Branch => b.1) bs hd)

/-- **Insertion order is irrelevant** for the manifest (and so for the id) … -/
theorem snapshot_perm (bs bs' : List Branch) (hp : bs.Perm bs') (hd : DistinctNames bs) :
    snapshotIdManifest bs = snapshotIdManifest bs' := by
  unfold snapshotIdManifest snapshotBody
  rw [sortBranches_perm bs bs' hp hd]

theorem snapshotId_perm (H : Bytes → Bytes) (bs bs' : List Branch) (hp : bs.Perm bs')
    (hd : DistinctNames bs) : snapshotId H bs = snapshotId H bs' := by
  unfold snapshotId; rw [snapshot_perm bs bs' hp hd]

/-- … and for the unresolved-alias report and the formatter's outcome. -/
theorem snapshotManifest_perm (bs bs' : List Branch) (hp : bs.Perm bs') (hd : DistinctNames bs)
    (ig : Bool) : snapshotManifest bs ig = snapshotManifest bs' ig := by
  have hu : unresolved bs = unresolved bs' := by
    unfold unresolved
    rw [sortBranches_perm bs bs' hp hd]
    have : ∀ t, bs.any (fun c => c.1 == t) = bs'.any (fun c => c.1 == t) := by
      intro t
      rw [Bool.eq_iff_iff]
      simp only [List.any_eq_true]
      constructor
      · rintro ⟨x, hx, h⟩; exact ⟨x, hp.mem_iff.mp hx, h⟩
      · rintro ⟨x, hx, h⟩; exact ⟨x, hp.mem_iff.mpr hx, h⟩
    simp only [this]
  unfold snapshotManifest snapshotBody
  rw [hu, sortBranches_perm bs bs' hp hd]

/-- **Decodability**: an independent decoder recovers every branch (kind, name, target), for
    NUL-free names and targets of *any* length and content (alias targets included). -/
theorem decode_snapshotBody (bs : List Branch) (hname : ∀ b ∈ bs, bNUL ∉ b.1) :
    decodeSnapshot (snapshotBody bs) = some ((sortBranches bs).map Branch.triple) := by
  unfold decodeSnapshot snapshotBody
  have hperm := sortByKey_perm (fun b : Branch => b.1) bs
  apply decodeSnapshotAux_map
  · have := snp_flatten_length_ge (sortBranches bs); omega
  · intro b hb; exact hname b (hperm.mem_iff.mp hb)

theorem strip_snapshotManifest (bs : List Branch) :
    stripGitHeader snapshotTy (snapshotIdManifest bs) = some (snapshotBody bs) :=
  stripGitHeader_gitObject snapshotTy _ (by decide)

/-- **Injectivity**: different branch maps never share a manifest. -/
theorem snapshotManifest_injective (bs bs' : List Branch)
    (hname : ∀ b ∈ bs, bNUL ∉ b.1) (hname' : ∀ b ∈ bs', bNUL ∉ b.1)
    (h : snapshotIdManifest bs = snapshotIdManifest bs') : bs.Perm bs' := by
  have hb : snapshotBody bs = snapshotBody bs' := by
    have a := strip_snapshotManifest bs
    rw [h, strip_snapshotManifest bs'] at a
    exact (Option.some.inj a).symm
  have d1 := decode_snapshotBody bs hname
  rw [hb, decode_snapshotBody bs' hname'] at d1
  have heq := Option.some.inj d1
  have back : ∀ l : List Branch, (l.map Branch.triple).filterMap branchOfTriple = l := by
    intro l
    induction l with
    | nil => rfl
    | cons x xs ih => simp [branchOfTriple_triple, ih]
  have hs : sortBranches bs = sortBranches bs' := by
    have := congrArg (List.filterMap branchOfTriple) heq
    rw [back, back] at this
    exact this.symm
  have p1 : (sortBranches bs).Perm bs := sortByKey_perm _ bs
  have p2 : (sortBranches bs').Perm bs' := sortByKey_perm _ bs'
  rw [hs] at p1
  exact p1.symm.trans p2

/-- **Exactly the unresolved aliases are reported**: an entry is in the report iff it is an
    alias branch whose target is not a branch name or is its own name … -/
theorem unresolved_spec (bs : List Branch) (n t : Bytes) :
    (n, t) ∈ unresolved bs ↔
      (n, BranchTarget.alias t) ∈ bs ∧ ((∀ c ∈ bs, c.1 ≠ t) ∨ t = n) := by
  unfold unresolved
  simp only [List.mem_filterMap]
  have hperm := sortByKey_perm (fun b : Branch => b.1) bs
  constructor
  · rintro ⟨⟨n', tg⟩, hmem, hsome⟩
    have hmem' := hperm.mem_iff.mp hmem
    cases tg with
    | dangling => simp at hsome
    | obj k x => simp at hsome
    | alias x =>
      simp only at hsome
      split at hsome
      · rename_i hc
        simp only [Option.some.injEq, Prod.mk.injEq] at hsome
        obtain ⟨rfl, rfl⟩ := hsome
        refine ⟨hmem', ?_⟩
        simp only [Bool.or_eq_true, Bool.not_eq_true', List.any_eq_false, beq_iff_eq] at hc
        rcases hc with hc | hc
        · left; intro c hcm; simpa using hc c hcm
        · right; exact hc
      · simp at hsome
  · rintro ⟨hmem, hcond⟩
    refine ⟨(n, .alias t), hperm.mem_iff.mpr hmem, ?_⟩
    have hc : (!(bs.any (fun c => c.1 == t)) || t == n) = true := by
      simp only [Bool.or_eq_true, Bool.not_eq_true', List.any_eq_false, beq_iff_eq]
      rcases hcond with h | h
      · left; intro c hcm; simpa using h c hcm
      · right; exact h
    simp [hc]

/-- … listed in branch-name order. -/
theorem unresolved_sorted (bs : List Branch) :
    (unresolved bs).Pairwise (fun a b => bytesLe a.1 b.1 = true) := by
  unfold unresolved
  have hs := sortByKey_sorted (fun b : Branch => b.1) bs
  refine List.Pairwise.filterMap _ ?_ hs
  intro a a' hle b hb b' hb'
  have h1 : b.1 = a.1 := by
    obtain ⟨n, tg⟩ := a
    cases tg <;> simp at hb
    rw [← hb.2]
  have h2 : b'.1 = a'.1 := by
    obtain ⟨n, tg⟩ := a'
    cases tg <;> simp at hb'
    rw [← hb'.2]
  rw [h1, h2]; exact hle

/-- **Formatting fails iff something is unresolved** (unless asked to ignore) -/
theorem format_raises_iff (bs : List Branch) :
    (∃ m, snapshotManifest bs false = .ok m) ↔ unresolved bs = [] := by
  unfold snapshotManifest
  cases h : unresolved bs with
  | nil => simp
  | cons x xs => simp

theorem format_error_carries_list (bs : List Branch) (u : List (Bytes × Bytes))
    (h : snapshotManifest bs false = .error u) : u = unresolved bs := by
  simp only [snapshotManifest] at h
  split at h
  · simpa using h.symm
  · simp at h

/-- with `ignore_unresolved=True` formatting never fails and is what the id hashes -/
theorem id_ignores_unresolved (bs : List Branch) :
    snapshotManifest bs true = .ok (snapshotIdManifest bs) := by
  unfold snapshotManifest snapshotIdManifest; simp

/-- whenever strict formatting succeeds it prints the same bytes as the id manifest -/
theorem strict_manifest_eq (bs : List Branch) (m : Bytes) (h : snapshotManifest bs false = .ok m) :
    m = snapshotIdManifest bs := by
  simp only [snapshotManifest] at h
  split at h
  · simp at h
  · simpa [snapshotIdManifest] using h.symm

/-- the kind names are the values of the live `SnapshotTargetType` enum (regenerated table) -/
theorem kind_table :
    [SnpKind.content.bytes, SnpKind.directory.bytes, SnpKind.revision.bytes,
     SnpKind.release.bytes, SnpKind.snapshot.bytes, aliasB] = Gen.snapshotTargetTypesB := by
  decide

/-- non-vacuity: prefix-related names, a self alias, an unresolved alias, a dangling branch -/
def exBranches : List Branch := [
  (asc ['a'], .obj .revision (List.replicate 20 7)),
  (asc ['a','1',':'], .alias (asc ['a'])),
  (asc ['a','1'], .alias (asc ['a','1'])),
  (asc ['b'], .alias (asc ['n','o'])),
  (asc ['c'], .dangling)]

example : DistinctNames exBranches ∧ (∀ b ∈ exBranches, bNUL ∉ b.1) := by
  unfold DistinctNames exBranches
  refine ⟨by decide, ?_⟩
  simp; decide

end Swh.C05
