import SwhVerif.Lemmas.Directory
import SwhVerif.Lemmas.Headers
import SwhVerif.Gen.Tables
/-!
# C02 — Directory ids are git tree ids, order-free and collision-free by construction

`H : Bytes → Bytes` is the (uninterpreted) hash; `dirId H es = H (dirManifest es)` is the
definitional shape of `Directory.compute_hash`.  Everything below is about the bytes fed to `H`.
-/
namespace Swh.C02
open Swh

def dirId (H : Bytes → Bytes) (es : List Entry) : Bytes := H (dirManifest es)

/-- well-formed entry list of the property: distinct names without `'/'` -/
def WfNames (es : List Entry) : Prop :=
  (es.map Entry.name).Nodup ∧ ∀ e ∈ es, bSlash ∉ e.name

/-- **Order independence**: any permutation of the entry tuple gives the same manifest (hence id). -/
theorem dirManifest_perm (es es' : List Entry) (hp : es.Perm es') (hw : WfNames es) :
    dirManifest es = dirManifest es' := by
  unfold dirManifest dirBody sortEntries
  rw [sortByKey_perm_unique entryKey es es' hp (entryKey_inj es hw.1 hw.2)]

theorem dirId_perm (H : Bytes → Bytes) (es es' : List Entry) (hp : es.Perm es') (hw : WfNames es) :
    dirId H es = dirId H es' := by
  unfold dirId; rw [dirManifest_perm es es' hp hw]

/-- **Decodability**: an independent tree decoder recovers exactly the (mode, name, target)
    triples, in manifest order, for NUL-free names, 20-byte targets and *any* mode value. -/
theorem decode_dirBody (es : List Entry)
    (hname : ∀ e ∈ es, bNUL ∉ e.name) (htgt : ∀ e ∈ es, e.target.length = 20) :
    decodeTree (dirBody es) = some ((sortEntries es).map Entry.triple) := by
  unfold decodeTree dirBody
  have hperm := sortByKey_perm entryKey es
  apply decodeTreeAux_map
  · have := flatten_length_ge (sortEntries es); omega
  · intro e he; exact hname e (hperm.mem_iff.mp he)
  · intro e he; exact htgt e (hperm.mem_iff.mp he)

/-- the body is recoverable from the full git object (header stripped, length checked) -/
theorem strip_dirManifest (es : List Entry) :
    stripGitHeader treeTy (dirManifest es) = some (dirBody es) :=
  stripGitHeader_gitObject treeTy _ (by decide)

/-- **Injectivity**: equal manifests ⇒ equal multisets of (mode, name, target). -/
theorem dirManifest_injective (es es' : List Entry)
    (hname : ∀ e ∈ es, bNUL ∉ e.name) (htgt : ∀ e ∈ es, e.target.length = 20)
    (hname' : ∀ e ∈ es', bNUL ∉ e.name) (htgt' : ∀ e ∈ es', e.target.length = 20)
    (h : dirManifest es = dirManifest es') :
    (es.map Entry.triple).Perm (es'.map Entry.triple) := by
  have hb : dirBody es = dirBody es' := by
    have a := strip_dirManifest es
    rw [h, strip_dirManifest es'] at a
    exact (Option.some.inj a).symm
  have d1 := decode_dirBody es hname htgt
  rw [hb, decode_dirBody es' hname' htgt'] at d1
  have heq := Option.some.inj d1
  have p1 : ((sortEntries es).map Entry.triple).Perm (es.map Entry.triple) :=
    (sortByKey_perm entryKey es).map _
  have p2 : ((sortEntries es').map Entry.triple).Perm (es'.map Entry.triple) :=
    (sortByKey_perm entryKey es').map _
  exact p1.symm.trans (heq ▸ p2)

/-- **Git ordering rule**: the sort key order is git's `base_name_compare`, a sub-directory
    (by entry type) sorting as if its name ended in `'/'`. -/
theorem sort_is_git_order (a b : Entry)
    (ha : bNUL ∉ a.name ∧ bSlash ∉ a.name) (hb : bNUL ∉ b.name ∧ bSlash ∉ b.name) :
    bytesLe (entryKey a) (entryKey b) = true
      ↔ gitBaseNameCompare a.name a.isDir b.name b.isDir ≠ .gt := by
  have := gitCmp_key a.name b.name a.isDir b.isDir ha hb
  have ka : entryKey a = (if a.isDir then a.name ++ [bSlash] else a.name) := by
    unfold entryKey Entry.isDir; cases a.type <;> simp
  have kb : entryKey b = (if b.isDir then b.name ++ [bSlash] else b.name) := by
    unfold entryKey Entry.isDir; cases b.type <;> simp
  rw [ka, kb]; simp only [bytesLe, decide_eq_true_eq]; exact this

/-- the manifest lists the entries in git order -/
theorem manifest_in_git_order (es : List Entry) :
    (sortEntries es).Pairwise (fun a b => bytesLe (entryKey a) (entryKey b) = true) :=
  sortByKey_sorted entryKey es

/-- **Octal modes**: the five regenerated `DentryPerms` values print as git's canonical modes
    (no padding: a directory is `40000`, not `040000`). -/
theorem oct_git :
    oct Gen.perms_content = asc ['1','0','0','6','4','4'] ∧
    oct Gen.perms_executable_content = asc ['1','0','0','7','5','5'] ∧
    oct Gen.perms_symlink = asc ['1','2','0','0','0','0'] ∧
    oct Gen.perms_directory = asc ['4','0','0','0','0'] ∧
    oct Gen.perms_revision = asc ['1','6','0','0','0','0'] := by
  refine ⟨?_, ?_, ?_, ?_, ?_⟩ <;>
    simp [oct, natBase, toBaseRev, Gen.perms_content, Gen.perms_executable_content,
      Gen.perms_symlink, Gen.perms_directory, Gen.perms_revision, digitByte, asc]

/-- modes are written without padding and parse back (any value, beyond 16 bits too) -/
theorem oct_roundtrip (n : Nat) : parseOct (oct n) = some n := parseOct_oct n

/-- **Only the entry multiset matters**: the id is a function of the entries alone, and of
    them only through (type-for-ordering, mode, name, target) — `dirId` has no other argument.
    Two entry lists that are permutations of each other are indistinguishable. -/
theorem only_entries (H : Bytes → Bytes) (es es' : List Entry) (hp : es.Perm es') (hw : WfNames es) :
    dirId H es = dirId H es' := dirId_perm H es es' hp hw

/-- non-vacuity: a concrete entry set with names that collide in git order meets every hypothesis -/
def exEntries : List Entry := [
  ⟨asc ['a'], .dir, 16384, List.replicate 20 1⟩,
  ⟨asc ['a','.'], .file, 33188, List.replicate 20 2⟩,
  ⟨asc ['a','0'], .file, 33261, List.replicate 20 3⟩,
  ⟨asc ['a','-'], .rev, 57344, List.replicate 20 4⟩]

example : WfNames exEntries ∧ (∀ e ∈ exEntries, bNUL ∉ e.name) ∧
    (∀ e ∈ exEntries, e.target.length = 20) := by
  unfold WfNames exEntries
  refine ⟨⟨by decide, ?_⟩, ?_, ?_⟩ <;> simp <;> decide

end Swh.C02
