import SwhVerif.Lemmas.SwhidRecog
/-!
# C09 — SWHID parsing accepts exactly the documented language, and fails cleanly

`parseSwhid cls s` mirrors `cls.from_string(s)` including its `try/except ValueError` wrappers
(`SwhVerif/Model/Swhid.lean`); `InLang cls s` is the documented grammar, written independently
(`SwhVerif/Model/SwhidLang.lean`, DESIGN A.5).  `lines` is the strict (repaired) reading.
`parseSwhid = parseSwhidW (some 4300)`: CPython refuses to convert more than 4300 digits.
-/
namespace Swh.C09
open Swh

/-- **Clean failure**: for every string and each class, parsing returns a value or raises the
    library's `ValidationError` — no `ValueError`, `TypeError`, `AssertionError`, or other. -/
theorem parse_clean (cls : SwhidClass) (s : Str) :
    (∃ v, parseSwhid cls s = .ok v) ∨ parseSwhid cls s = .error .validation :=
  parseSwhidW_clean (some maxDigits) cls s

theorem parse_clean_unlimited (cls : SwhidClass) (s : Str) :
    (∃ v, parseSwhidW none cls s = .ok v) ∨ parseSwhidW none cls s = .error .validation :=
  parseSwhidW_clean none cls s

/-- the class of a parsed value is the class asked for -/
theorem parse_cls (cls : SwhidClass) (s : Str) (v : Value) (h : parseSwhid cls s = .ok v) :
    v.cls = cls := (parseSwhidW_wf _ cls s v h).2

/-- **Exact acceptance, digit limit on both sides**: with line numbers restricted to at most
    `lim` digits in the grammar, the parser (whose `int` has the same limit) accepts exactly the
    language.  `lim = some 4300` is CPython, `lim = none` an `int` without limit. -/
theorem accept_iff_limit (lim : Option Nat) (cls : SwhidClass) (s : Str) :
    (parseSwhidW lim cls s).isOk = true ↔ InLangW lim cls s := accept_iff_W lim cls s

/-- what CPython accepts is the documented language restricted to line numbers of ≤ 4300 digits -/
theorem accept_iff_cpython (cls : SwhidClass) (s : Str) :
    (parseSwhid cls s).isOk = true ↔ InLangW (some maxDigits) cls s :=
  accept_iff_W (some maxDigits) cls s

/-- the full-strength statement holds for the parser without `int`'s digit limit -/
theorem accept_iff_unlimited (cls : SwhidClass) (s : Str) :
    (parseSwhidW none cls s).isOk = true ↔ InLang cls s := accept_iff_W none cls s

/- Full-strength statement, FALSE for CPython (finding F4: a line number of 4301 digits is in the
   grammar and is rejected, cleanly):

     theorem accept_iff (cls : SwhidClass) (s : Str) :
         (parseSwhid cls s).isOk = true ↔ InLang cls s

   Only the direction `→` holds (`accept_sound`); the converse needs the hypothesis below. -/

/-- accepted strings are in the documented language (no hypothesis) -/
theorem accept_sound (cls : SwhidClass) (s : Str) (h : (parseSwhid cls s).isOk = true) :
    InLang cls s :=
  inLangW_mono (some maxDigits) cls s ((accept_iff_W _ cls s).mp h)

/-- **Acceptance = documented language**, for strings in which every run of decimal digits
    (hence every line number) has at most 4300 characters. -/
theorem accept_iff_partial (cls : SwhidClass) (s : Str) (hd : DigitRunsWithin maxDigits s) :
    (parseSwhid cls s).isOk = true ↔ InLang cls s :=
  ⟨accept_sound cls s, fun h => (accept_iff_W _ cls s).mpr (inLang_within maxDigits cls s h hd)⟩

theorem digitRuns_of_short (m : Nat) (s : Str) (hs : s.length ≤ m) : DigitRunsWithin m s := by
  intro pre a post e _
  have : s.length = pre.length + a.length + post.length := by
    rw [e]; simp only [List.length_append]
  omega

/-- in particular for every string of at most 4300 characters -/
theorem accept_iff_short (cls : SwhidClass) (s : Str) (hs : s.length ≤ maxDigits) :
    (parseSwhid cls s).isOk = true ↔ InLang cls s :=
  accept_iff_partial cls s (digitRuns_of_short _ s hs)

/-- **The executable recogniser used by the correspondence check decides the declarative
    language** (it is written without reference to the parser). -/
theorem recogniser_correct (lim : Option Nat) (cls : SwhidClass) (s : Str) :
    inLangW lim cls s = true ↔ InLangW lim cls s := inLangW_iff lim cls s

theorem inLang_correct (cls : SwhidClass) (s : Str) : inLang cls s = true ↔ InLang cls s :=
  inLangW_iff none cls s

/-- parser and recogniser agree as Boolean functions (what the harness observes) -/
theorem accept_eq_recogniser (cls : SwhidClass) (s : Str) :
    (parseSwhid cls s).isOk = inLangW (some maxDigits) cls s := by
  rw [Bool.eq_iff_iff, recogniser_correct]
  exact accept_iff_cpython cls s

instance (lim : Option Nat) (cls : SwhidClass) (s : Str) : Decidable (InLangW lim cls s) :=
  decidable_of_iff _ (inLangW_iff lim cls s)
instance (cls : SwhidClass) (s : Str) : Decidable (InLang cls s) :=
  decidable_of_iff _ (inLangW_iff none cls s)

/-- **Re-print**: an accepted string re-prints to a string that parses to an equal value. -/
theorem reprint (cls : SwhidClass) (s : Str) (v : Value) (h : parseSwhid cls s = .ok v) :
    parseSwhid cls (printValue v) = .ok v := by
  obtain ⟨hwf, hcls⟩ := parseSwhidW_wf _ cls s v h
  rw [← hcls]
  exact parseSwhidW_print _ v hwf

/-- for the unqualified classes an accepted string *is* the printed form of its value -/
theorem print_parse_base (s : Str) (b : BaseSwhid) :
    (parseSwhid .core s = .ok (.core b) → printValue (.core b) = s) ∧
    (parseSwhid .extended s = .ok (.extended b) → printValue (.extended b) = s) := by
  constructor
  · intro h
    simp only [parseSwhid, parseSwhidW] at h
    cases hb : coreFromString s with
    | error e => simp [hb, bind, Except.bind] at h
    | ok b' =>
      simp only [hb, bind, Except.bind, Except.ok.injEq, Value.core.injEq] at h
      subst h
      exact ((coreFromString_iff s b').mp hb).2.2.symm
  · intro h
    simp only [parseSwhid, parseSwhidW] at h
    cases hb : extFromString s with
    | error e => simp [hb, bind, Except.bind] at h
    | ok b' =>
      simp only [hb, bind, Except.bind, Except.ok.injEq, Value.extended.injEq] at h
      subst h
      exact ((extFromString_iff s b').mp hb).2.2.symm

/-- **The three classes agree on qualifier-free strings whose type they all support.** -/
theorem classes_agree (s : Str) (b : BaseSwhid) :
    -- what `CoreSWHID` accepts, the other two accept with the same type and id
    (parseSwhid .core s = .ok (.core b) →
      parseSwhid .extended s = .ok (.extended b) ∧
      parseSwhid .qualified s = .ok (.qualified (QualSwhid.ofBase b))) ∧
    -- what `ExtendedSWHID` accepts with a core type, `CoreSWHID` accepts identically
    (parseSwhid .extended s = .ok (.extended b) → b.objectType ∈ Gen.coreTypes.map String.toList →
      parseSwhid .core s = .ok (.core b)) ∧
    -- what `QualifiedSWHID` accepts on a `;`-free string has no qualifier and `CoreSWHID` agrees
    (∀ q, ';' ∉ s → parseSwhid .qualified s = .ok (.qualified q) → q.base = b →
      q = QualSwhid.ofBase b ∧ parseSwhid .core s = .ok (.core b)) := by
  refine ⟨?_, ?_, ?_⟩
  · intro h
    have hp := (print_parse_base s b).1 h
    obtain ⟨hwf, _⟩ := parseSwhidW_wf _ _ s _ h
    have hwf' : BaseWF coreTags b := hwf
    subst hp
    constructor
    · have := (extFromString_iff (printBase b) b).mpr ⟨coreTags_sub_extTags _ hwf'.ty, hwf'.id, rfl⟩
      simp [parseSwhid, parseSwhidW, printValue, this, bind, Except.bind]
    · have := qual_of_core (some maxDigits) b hwf'
      simp [parseSwhid, parseSwhidW, printValue, this, bind, Except.bind]
  · intro h ht
    have hp := (print_parse_base s b).2 h
    obtain ⟨hwf, _⟩ := parseSwhidW_wf _ _ s _ h
    have hwf' : BaseWF extTags b := hwf
    subst hp
    have := (coreFromString_iff (printBase b) b).mpr ⟨ht, hwf'.id, rfl⟩
    simp [parseSwhid, parseSwhidW, printValue, this, bind, Except.bind]
  · intro q hs h hb
    simp only [parseSwhid, parseSwhidW] at h
    cases hq : qualFromStringW (some maxDigits) s with
    | error e => simp [hq, bind, Except.bind] at h
    | ok q' =>
      simp only [hq, bind, Except.bind, Except.ok.injEq, Value.qualified.injEq] at h
      subst h
      obtain ⟨h1, h2, h3⟩ := qual_no_semi _ s q' hs hq
      subst hb
      refine ⟨h1, ?_⟩
      have := (coreFromString_iff s q'.base).mpr ⟨h3.ty, h3.id, h2⟩
      simp [parseSwhid, parseSwhidW, this, bind, Except.bind]

/-- every qualified parse result satisfies the constructor's invariants -/
theorem parse_wf (cls : SwhidClass) (s : Str) (v : Value) (h : parseSwhid cls s = .ok v) :
    ValueWF (some maxDigits) v := (parseSwhidW_wf _ cls s v h).1

/-! ### non-vacuity -/

deriving instance DecidableEq for Except

def exId : Bytes :=
  [0x8f, 0xf4, 0x4f, 0x08, 0x1d, 0x43, 0x17, 0x64, 0x74, 0xb2, 0x67, 0xde, 0x54, 0x51, 0xf2, 0xc2,
   0xe8, 0x80, 0x89, 0xd0]
def exCore : Str := "swh:1:cnt:8ff44f081d43176474b267de5451f2c2e88089d0".toList
def exOri : Str := "swh:1:ori:8ff44f081d43176474b267de5451f2c2e88089d0".toList
def exQual : Str :=
  ("swh:1:cnt:8ff44f081d43176474b267de5451f2c2e88089d0;origin=https://x.org/a%3Bb%25c%20d" ++
   ";lines=1;visit=swh:1:snp:8ff44f081d43176474b267de5451f2c2e88089d0" ++
   ";anchor=swh:1:rev:8ff44f081d43176474b267de5451f2c2e88089d0;path=/a%00%25%3b%FF;lines=5-10").toList

set_option maxRecDepth 100000 in
example : parseSwhid .core exCore = .ok (.core ⟨"cnt".toList, exId⟩) := by decide
set_option maxRecDepth 100000 in
example : parseSwhid .core exOri = .error .validation := by decide
set_option maxRecDepth 100000 in
example : parseSwhid .extended exOri = .ok (.extended ⟨"ori".toList, exId⟩) := by decide
set_option maxRecDepth 100000 in
example : parseSwhid .qualified exOri = .error .validation := by decide
set_option maxRecDepth 100000 in
example : parseSwhid .core exQual = .error .validation := by decide
/-- all five qualifiers, out of order, `lines` repeated (the last one wins) -/
theorem exQual_parse : parseSwhid .qualified exQual
    = .ok (.qualified ⟨"cnt".toList, exId, some "https://x.org/a;b%c d".toList,
        some ⟨"snp".toList, exId⟩, some ⟨"rev".toList, exId⟩,
        some [0x2f, 0x61, 0, 0x25, 0x3b, 0xff], some (5, some 10)⟩) := by
  set_option maxRecDepth 100000 in decide
example : InLang .qualified exQual := accept_sound _ _ (by rw [exQual_parse]; rfl)
example : InLang .core exCore := by
  refine ⟨"cnt".toList, by decide, "8ff44f081d43176474b267de5451f2c2e88089d0".toList, by decide,
    by decide, by decide⟩
set_option maxRecDepth 100000 in
example : parseSwhid .qualified (exCore ++ ";lines=+5".toList) = .error .validation := by decide
set_option maxRecDepth 100000 in
example : parseSwhid .qualified (exCore ++ ";lines=1-2-3".toList) = .error .validation := by decide
set_option maxRecDepth 100000 in
example : parseSwhid .qualified (exCore ++ ";origin=a b".toList) = .error .validation := by decide
set_option maxRecDepth 100000 in
example : parseSwhid .qualified (exCore ++ ";foo=bar".toList) = .error .validation := by decide
set_option maxRecDepth 100000 in
example : parseSwhid .qualified (exCore ++ ";visit=".toList ++ exCore) = .error .validation := by
  decide
set_option maxRecDepth 100000 in
example : ¬ InLang .core exOri := by decide
set_option maxRecDepth 100000 in
example : InLang .extended exOri := by decide
set_option maxRecDepth 100000 in
example : ¬ InLang .qualified (exCore ++ ";lines=1_0".toList) := by decide
set_option maxRecDepth 100000 in
example : DigitRunsWithin maxDigits exQual := digitRuns_of_short _ _ (by decide)

end Swh.C09
