import SwhVerif.Lemmas.SerdeLegacy
import SwhVerif.Lemmas.SerdeValid
import SwhVerif.Lemmas.SerdeMeta
/-!
# C12 — dictionary serialisation round-trips every object

For each of the 18 model classes `C` (model: `SwhVerif/Model/Serde.lean`):

* `fromDict_toDict_C : ValidC o → fromDictC (toDictC o) = .ok o` where `ValidC` is what the
  constructor of `C` accepts and `=` is structural equality of the records — every attrs field,
  the `id` included.  Python's `__eq__` ignores `Person.name/email`, `Content.get_data/ctime`
  and `SkippedContent.ctime` (`eq=False`): structural equality is finer, so the theorems imply
  equality in Python's sense, and moreover say that these fields survive too (`get_data`
  excepted: see `content_lazy_data`).
* `toDict_fromDict_toDict_C` : converting again yields the same dictionary.
* "the dictionary form contains only plain values" holds by typing: `toDictC : C → Val` and `Val`
  has no constructor for model objects, enums, SWHIDs or callables.
* "decoding never modifies its argument" (`fromDict_pure`) holds by construction: `fromDictC` is
  a function on values.  (The legacy branch of `RawExtrinsicMetadata.from_dict` as first shipped
  popped `type` from and rewrote `target` in the caller's dictionary — finding F8, repaired;
  the implementation is checked by the harness with a deep copy.)

The id functions (`IdFns`) are uninterpreted in every statement.

`ExtID.from_dict` is the REPAIRED one (`id=d.get("id") or b""`): the shipped code ignored the
`id` key, so an ExtID built with an explicit id did not come back (finding F9).

One statement of the property is FALSE for the code and is proved in the form that holds,
together with the counterexample theorem:

* `Content` with its data behind `get_data` : `to_dict` loads the data, so the decoded object has
  `data` set and differs from the original (`content_lazy_data`, `content_lazy_not_equal`).
-/
namespace Swh.C12
open Swh Swh.Serde

/-! ### the records carry exactly the attrs fields of the live classes -/

theorem fields_Person : genFieldsOf "Person" = some (structFields% Swh.Serde.Person) := by decide
theorem fields_Timestamp : genFieldsOf "Timestamp" = some (structFields% Swh.Serde.Timestamp) := by decide
theorem fields_TimestampWithTimezone :
    genFieldsOf "TimestampWithTimezone" = some (structFields% Swh.Serde.TimestampWithTimezone) := by decide
theorem fields_Origin : genFieldsOf "Origin" = some (structFields% Swh.Serde.Origin) := by decide
theorem fields_OriginVisit : genFieldsOf "OriginVisit" = some (structFields% Swh.Serde.OriginVisit) := by decide
theorem fields_OriginVisitStatus :
    genFieldsOf "OriginVisitStatus" = some (structFields% Swh.Serde.OriginVisitStatus) := by decide
theorem fields_SnapshotBranch :
    genFieldsOf "SnapshotBranch" = some (structFields% Swh.Serde.SnapshotBranch) := by decide
theorem fields_Snapshot : genFieldsOf "Snapshot" = some (structFields% Swh.Serde.Snapshot) := by decide
theorem fields_Release : genFieldsOf "Release" = some (structFields% Swh.Serde.Release) := by decide
theorem fields_Revision : genFieldsOf "Revision" = some (structFields% Swh.Serde.Revision) := by decide
theorem fields_DirectoryEntry :
    genFieldsOf "DirectoryEntry" = some (structFields% Swh.Serde.DirectoryEntry) := by decide
theorem fields_Directory : genFieldsOf "Directory" = some (structFields% Swh.Serde.Directory) := by decide
theorem fields_Content : genFieldsOf "Content" = some (structFields% Swh.Serde.Content) := by decide
theorem fields_SkippedContent :
    genFieldsOf "SkippedContent" = some (structFields% Swh.Serde.SkippedContent) := by decide
theorem fields_MetadataAuthority :
    genFieldsOf "MetadataAuthority" = some (structFields% Swh.Serde.MetadataAuthority) := by decide
theorem fields_MetadataFetcher :
    genFieldsOf "MetadataFetcher" = some (structFields% Swh.Serde.MetadataFetcher) := by decide
theorem fields_RawExtrinsicMetadata :
    genFieldsOf "RawExtrinsicMetadata" = some (structFields% Swh.Serde.RawExtrinsicMetadata) := by decide
theorem fields_ExtID : genFieldsOf "ExtID" = some (structFields% Swh.Serde.ExtID) := by decide

/-- the context-key rules of `RawExtrinsicMetadata` coded in the model are the regenerated table
    (`Gen.contextAllowed` : for each target kind, the context keys the live validators accept) -/
theorem context_rules_table :
    ∀ p ∈ Gen.contextAllowed,
      originCtxOk p.1.toList (some []) = p.2.contains "origin" ∧
      visitCtxOk p.1.toList (some []) (some 1) = p.2.contains "visit" ∧
      swhidCtxOk p.1.toList snapshotCtxFor tSnp (some ⟨tSnp, []⟩) = p.2.contains "snapshot" ∧
      swhidCtxOk p.1.toList releaseCtxFor tRel (some ⟨tRel, []⟩) = p.2.contains "release" ∧
      swhidCtxOk p.1.toList revisionCtxFor tRev (some ⟨tRev, []⟩) = p.2.contains "revision" ∧
      pathCtxOk p.1.toList (some []) = p.2.contains "path" ∧
      swhidCtxOk p.1.toList directoryCtxFor tDir (some ⟨tDir, []⟩) = p.2.contains "directory" := by
  decide

/-! ### round trips -/

theorem fromDict_toDict_Person (o : Person) (_ : ValidPerson o) :
    fromDictPerson (toDictPerson o) = .ok o := rt_Person o

theorem fromDict_toDict_Timestamp (o : Timestamp) (h : ValidTimestamp o) :
    fromDictTimestamp (toDictTimestamp o) = .ok o := rt_Timestamp o h

/-- any `offset_bytes`, canonical or not -/
theorem fromDict_toDict_TimestampWithTimezone (o : TimestampWithTimezone)
    (h : ValidTimestampWithTimezone o) :
    fromDictTimestampWithTimezone (toDictTimestampWithTimezone o) = .ok o :=
  rt_TimestampWithTimezone o h

theorem fromDict_toDict_Origin (ids : IdFns) (o : Origin) (h : ValidOrigin o) :
    fromDictOrigin ids (toDictOrigin o) = .ok o := rt_Origin ids o h

theorem fromDict_toDict_OriginVisit (o : OriginVisit) (_ : ValidOriginVisit o) :
    fromDictOriginVisit (toDictOriginVisit o) = .ok o := rt_OriginVisit o

theorem fromDict_toDict_OriginVisitStatus (o : OriginVisitStatus) (h : ValidOriginVisitStatus o) :
    fromDictOriginVisitStatus (toDictOriginVisitStatus o) = .ok o := rt_OriginVisitStatus o h

theorem fromDict_toDict_SnapshotBranch (o : SnapshotBranch) (h : ValidSnapshotBranch o) :
    fromDictSnapshotBranch (toDictSnapshotBranch o) = .ok o := rt_SnapshotBranch o h

theorem fromDict_toDict_Snapshot (ids : IdFns) (o : Snapshot) (h : ValidSnapshot o) :
    fromDictSnapshot ids (toDictSnapshot o) = .ok o := rt_Snapshot ids o h

/-- every optional field present or absent; an author without date included -/
theorem fromDict_toDict_Release (ids : IdFns) (o : Release) (h : ValidRelease o) :
    fromDictRelease ids (toDictRelease o) = .ok o := rt_Release ids o h

theorem fromDict_toDict_Revision (ids : IdFns) (o : Revision) (h : ValidRevision o) :
    fromDictRevision ids (toDictRevision o) = .ok o := rt_Revision ids o h

theorem fromDict_toDict_DirectoryEntry (o : DirectoryEntry) (h : ValidDirectoryEntry o) :
    fromDictDirectoryEntry (toDictDirectoryEntry o) = .ok o := rt_DirectoryEntry o h

theorem fromDict_toDict_Directory (ids : IdFns) (o : Directory) (h : ValidDirectory o) :
    fromDictDirectory ids (toDictDirectory o) = .ok o := rt_Directory ids o h

/-- contents without `get_data` (the only ones a dictionary can describe) -/
theorem fromDict_toDict_Content (o : Content) (h : ValidContent o) :
    fromDictContent (toDictContent o) = .ok o := rt_Content o h

/-- any subset of the four hashes missing, length `-1` included -/
theorem fromDict_toDict_SkippedContent (o : SkippedContent) (h : ValidSkippedContent o) :
    fromDictSkippedContent (toDictSkippedContent o) = .ok o := rt_SkippedContent o h

theorem fromDict_toDict_MetadataAuthority (o : MetadataAuthority) (h : ValidMetadataAuthority o) :
    fromDictMetadataAuthority (toDictMetadataAuthority o) = .ok o := rt_MetadataAuthority o h

theorem fromDict_toDict_MetadataFetcher (o : MetadataFetcher) (_ : ValidMetadataFetcher o) :
    fromDictMetadataFetcher (toDictMetadataFetcher o) = .ok o := rt_MetadataFetcher o

/-- every admissible subset of the seven context keys -/
theorem fromDict_toDict_RawExtrinsicMetadata (ids : IdFns) (o : RawExtrinsicMetadata)
    (h : ValidRawExtrinsicMetadata o) :
    fromDictRawExtrinsicMetadata ids (toDictRawExtrinsicMetadata o) = .ok o :=
  rt_RawExtrinsicMetadata ids o h

/-- with or without version and payload, explicit id included (repaired `from_dict`) -/
theorem fromDict_toDict_ExtID (ids : IdFns) (o : ExtID) (h : ValidExtID o) :
    fromDictExtID ids (toDictExtID o) = .ok o := rt_ExtID ids o h

/-! ### converting again yields the same dictionary -/

theorem toDict_fromDict_toDict_Person (o : Person) (h : ValidPerson o) :
    toDictPerson <$> fromDictPerson (toDictPerson o) = .ok (toDictPerson o) := by
  rw [fromDict_toDict_Person o h]; rfl
theorem toDict_fromDict_toDict_Timestamp (o : Timestamp) (h : ValidTimestamp o) :
    toDictTimestamp <$> fromDictTimestamp (toDictTimestamp o) = .ok (toDictTimestamp o) := by
  rw [fromDict_toDict_Timestamp o h]; rfl
theorem toDict_fromDict_toDict_TimestampWithTimezone (o : TimestampWithTimezone)
    (h : ValidTimestampWithTimezone o) :
    toDictTimestampWithTimezone <$> fromDictTimestampWithTimezone (toDictTimestampWithTimezone o)
      = .ok (toDictTimestampWithTimezone o) := by
  rw [fromDict_toDict_TimestampWithTimezone o h]; rfl
theorem toDict_fromDict_toDict_Origin (ids : IdFns) (o : Origin) (h : ValidOrigin o) :
    toDictOrigin <$> fromDictOrigin ids (toDictOrigin o) = .ok (toDictOrigin o) := by
  rw [fromDict_toDict_Origin ids o h]; rfl
theorem toDict_fromDict_toDict_OriginVisit (o : OriginVisit) (h : ValidOriginVisit o) :
    toDictOriginVisit <$> fromDictOriginVisit (toDictOriginVisit o) = .ok (toDictOriginVisit o) := by
  rw [fromDict_toDict_OriginVisit o h]; rfl
theorem toDict_fromDict_toDict_OriginVisitStatus (o : OriginVisitStatus)
    (h : ValidOriginVisitStatus o) :
    toDictOriginVisitStatus <$> fromDictOriginVisitStatus (toDictOriginVisitStatus o)
      = .ok (toDictOriginVisitStatus o) := by
  rw [fromDict_toDict_OriginVisitStatus o h]; rfl
theorem toDict_fromDict_toDict_SnapshotBranch (o : SnapshotBranch) (h : ValidSnapshotBranch o) :
    toDictSnapshotBranch <$> fromDictSnapshotBranch (toDictSnapshotBranch o)
      = .ok (toDictSnapshotBranch o) := by
  rw [fromDict_toDict_SnapshotBranch o h]; rfl
theorem toDict_fromDict_toDict_Snapshot (ids : IdFns) (o : Snapshot) (h : ValidSnapshot o) :
    toDictSnapshot <$> fromDictSnapshot ids (toDictSnapshot o) = .ok (toDictSnapshot o) := by
  rw [fromDict_toDict_Snapshot ids o h]; rfl
theorem toDict_fromDict_toDict_Release (ids : IdFns) (o : Release) (h : ValidRelease o) :
    toDictRelease <$> fromDictRelease ids (toDictRelease o) = .ok (toDictRelease o) := by
  rw [fromDict_toDict_Release ids o h]; rfl
theorem toDict_fromDict_toDict_Revision (ids : IdFns) (o : Revision) (h : ValidRevision o) :
    toDictRevision <$> fromDictRevision ids (toDictRevision o) = .ok (toDictRevision o) := by
  rw [fromDict_toDict_Revision ids o h]; rfl
theorem toDict_fromDict_toDict_DirectoryEntry (o : DirectoryEntry) (h : ValidDirectoryEntry o) :
    toDictDirectoryEntry <$> fromDictDirectoryEntry (toDictDirectoryEntry o)
      = .ok (toDictDirectoryEntry o) := by
  rw [fromDict_toDict_DirectoryEntry o h]; rfl
theorem toDict_fromDict_toDict_Directory (ids : IdFns) (o : Directory) (h : ValidDirectory o) :
    toDictDirectory <$> fromDictDirectory ids (toDictDirectory o) = .ok (toDictDirectory o) := by
  rw [fromDict_toDict_Directory ids o h]; rfl
theorem toDict_fromDict_toDict_Content (o : Content) (h : ValidContent o) :
    toDictContent <$> fromDictContent (toDictContent o) = .ok (toDictContent o) := by
  rw [fromDict_toDict_Content o h]; rfl
theorem toDict_fromDict_toDict_SkippedContent (o : SkippedContent) (h : ValidSkippedContent o) :
    toDictSkippedContent <$> fromDictSkippedContent (toDictSkippedContent o)
      = .ok (toDictSkippedContent o) := by
  rw [fromDict_toDict_SkippedContent o h]; rfl
theorem toDict_fromDict_toDict_MetadataAuthority (o : MetadataAuthority)
    (h : ValidMetadataAuthority o) :
    toDictMetadataAuthority <$> fromDictMetadataAuthority (toDictMetadataAuthority o)
      = .ok (toDictMetadataAuthority o) := by
  rw [fromDict_toDict_MetadataAuthority o h]; rfl
theorem toDict_fromDict_toDict_MetadataFetcher (o : MetadataFetcher) (h : ValidMetadataFetcher o) :
    toDictMetadataFetcher <$> fromDictMetadataFetcher (toDictMetadataFetcher o)
      = .ok (toDictMetadataFetcher o) := by
  rw [fromDict_toDict_MetadataFetcher o h]; rfl
theorem toDict_fromDict_toDict_RawExtrinsicMetadata (ids : IdFns) (o : RawExtrinsicMetadata)
    (h : ValidRawExtrinsicMetadata o) :
    toDictRawExtrinsicMetadata <$> fromDictRawExtrinsicMetadata ids (toDictRawExtrinsicMetadata o)
      = .ok (toDictRawExtrinsicMetadata o) := by
  rw [fromDict_toDict_RawExtrinsicMetadata ids o h]; rfl

theorem toDict_fromDict_toDict_ExtID (ids : IdFns) (o : ExtID) (h : ValidExtID o) :
    toDictExtID <$> fromDictExtID ids (toDictExtID o) = .ok (toDictExtID o) := by
  rw [fromDict_toDict_ExtID ids o h]; rfl

/-! ### a content whose data is behind `get_data` -/

/-- `to_dict` loads the data from the callable, so the decoded object has `data` set … -/
theorem content_lazy_data (o : Content) (g : Bytes) (h1 : 0 ≤ o.length)
    (h2 : o.status ∈ contentStatuses) (hd : o.data = none) (hg : o.get_data = some g) :
    fromDictContent (toDictContent o) = .ok { o with data := some g, get_data := none } :=
  content_lazy o g h1 h2 hd hg

/-- … and is *not* equal to the original (also in Python's sense: `data` has `eq=True`) -/
theorem content_lazy_not_equal (o : Content) (g : Bytes) (h1 : 0 ≤ o.length)
    (h2 : o.status ∈ contentStatuses) (hd : o.data = none) (hg : o.get_data = some g) :
    ∃ o', fromDictContent (toDictContent o) = .ok o' ∧ o'.data ≠ o.data :=
  ⟨_, content_lazy o g h1 h2 hd hg, by simp [hd]⟩

/-! ### legacy encodings -/

/-- **numeric offset + negative-UTC flag ≡ offset bytes**, for every offset in the 16-bit range
    and every flag the format allows (negative UTC only with a non-positive offset); the
    `timestamp` member is arbitrary (dictionary, bare integer, or anything rejected alike) -/
theorem tstz_legacy_offset (ts : Val) (o : Int) (f : Bool)
    (hlo : -32768 ≤ o) (hhi : o ≤ 32767) (hf : f = true → o ≤ 0) :
    fromDictTimestampWithTimezone (.dict (build
      [(k!"timestamp", some ts), (k!"offset", some (.int o)), (k!"negative_utc", some (.bool f))])) =
    fromDictTimestampWithTimezone (.dict (build
      [(k!"timestamp", some ts), (k!"offset_bytes", some (.bytes (formatOffset o f)))])) :=
  tstz_legacy_offset_lit ts o f hlo hhi hf

/-- the same for any dictionary without `offset_bytes` (other keys, absent or non-boolean flag) -/
theorem tstz_legacy_offset_any (kv : KV) (o : Int)
    (hob : lookup k!"offset_bytes" kv = none) (hoff : lookup k!"offset" kv = some (.int o))
    (hlo : -32768 ≤ o) (hhi : o ≤ 32767)
    (hf : truthy (argD kv k!"negative_utc" .none) = true → o ≤ 0) :
    fromDictTimestampWithTimezone (.dict kv) =
    fromDictTimestampWithTimezone (.dict (kv ++ [(Val.str k!"offset_bytes",
      Val.bytes (formatOffset o (truthy (argD kv k!"negative_utc" .none))))])) :=
  tstz_legacy_offset_general kv o hob hoff hlo hhi hf

/-- **a bare integer ≡ that many seconds, no microseconds, offset `+0000`** -/
theorem tstz_from_int (i : Int) :
    fromDictTimestampWithTimezone (.int i) =
    fromDictTimestampWithTimezone
      (toDictTimestampWithTimezone ⟨⟨i, 0⟩, [0x2b, 0x30, 0x30, 0x30, 0x30]⟩) :=
  tstz_from_int_eq i

/-- **a person without `fullname`** decodes to the person whose fullname is `name <email>`
    (`name`, `<email>` or the empty string when a part is `None`), i.e. to the same object as
    the current encoding of that person -/
theorem person_without_fullname (n e : Option Bytes) :
    fromDictPerson (.dict (build [(k!"name", some (encOptBytes n)), (k!"email", some (encOptBytes e))]))
      = fromDictPerson (toDictPerson ⟨joinFullname n e, n, e⟩) := by
  rw [person_without_fullname_eq, rt_Person]

theorem person_fullname_built (n e : Bytes) :
    joinFullname none none = [] ∧ joinFullname (some n) none = n ∧
    joinFullname none (some e) = (0x3c : UInt8) :: (e ++ [0x3e]) ∧
    joinFullname (some n) (some e) = n ++ [bSP] ++ (0x3c : UInt8) :: (e ++ [0x3e]) :=
  joinFullname_cases n e

/-- **extra headers inside `metadata["extra_headers"]` ≡ the `extra_headers` attribute**, for a
    revision dictionary with an explicit id.  `m'` is the legacy metadata: it holds the headers
    under `extra_headers` (anywhere) and the revision's metadata is the rest of `m'` — an empty
    dictionary, not `None`, when nothing else was there. -/
theorem revision_legacy_headers (ids : IdFns) (o : Revision) (m' : Meta) (hv : ValidRevision o)
    (hmeta : o.metadata = some (m'.filter (fun p => p.1 != kExtraHeaders)))
    (hl : mlookup kExtraHeaders m' = some (encHeaders o.extra_headers)) :
    fromDictRevision ids (toDictRevision { o with metadata := some m', extra_headers := [] })
      = fromDictRevision ids (toDictRevision o) := by
  rw [revision_legacy_headers_explicit ids o m' hv hmeta hl, rt_Revision ids o hv]

/-- without an explicit id the two encodings give the same revision up to the id, which
    `compute_hash` computes on the record *before* the headers are moved out of the metadata:
    the ids agree iff the hash function reads the headers from either place (C03 shows it does) -/
theorem revision_legacy_headers_noid (ids : IdFns) (r : Revision) (m' : Meta)
    (hs : List (Bytes × Bytes)) (hmeta : r.metadata = some m') (hempty : r.extra_headers = [])
    (hid : r.id = []) (hl : mlookup kExtraHeaders m' = some (encHeaders hs)) :
    revisionPostInit ids r =
      .ok { r with id := ids.revision r, extra_headers := hs,
                   metadata := some (m'.filter (fun p => p.1 != kExtraHeaders)) } := by
  have := revisionPostInit_legacy ids r m' hs hmeta hempty hl
  simpa [hid] using this

/-- **old-style metadata target** : `{"type": "origin", "target": <url>}` decodes as the same
    dictionary without `type` and with `target` = the text of the origin's extended SWHID
    (`swh:1:ori:<originId url>`), for any dictionary `kv` (the other keys are arbitrary) -/
theorem metadata_legacy_target (ids : IdFns) (kv : KV) (url : PStr)
    (hty : lookup k!"type" kv = some (.str k!"origin"))
    (htg : lookup k!"target" kv = some (.str url))
    (hu : urlOk url = true) (hlen : (ids.origin url).length = 20) :
    fromDictRawExtrinsicMetadata ids (.dict kv) =
    fromDictRawExtrinsicMetadata ids (.dict
      (setKey k!"target" (.str (swhidText ⟨tOri, ids.origin url⟩)) (erase k!"type" kv))) :=
  metadata_legacy_target_eq ids kv url hty htg hu hlen

/-! ### `Valid…` is exactly what `from_dict` can build; the second conversion is stable

The round-trip theorems show that every valid object is accepted by the constructor (it is the
result of `fromDict` on its own dictionary).  Conversely every object built by `fromDict` — from
any dictionary, legacy encodings included — is valid.  Hence, for every accepted dictionary `d`,
`to_dict(from_dict(to_dict(from_dict(d)))) = to_dict(from_dict(d))` : the two components of the
driver's `roundTrip` are equal.  `ids.NonEmpty` : computed ids are never empty (SHA-1 digests). -/

theorem fromDict_valid_Person (d : Val) (o : Person) (h : fromDictPerson d = .ok o) :
    ValidPerson o := valid_Person d o h
theorem fromDict_valid_Timestamp (d : Val) (o : Timestamp) (h : fromDictTimestamp d = .ok o) :
    ValidTimestamp o := valid_Timestamp d o h
theorem fromDict_valid_TimestampWithTimezone (d : Val) (o : TimestampWithTimezone)
    (h : fromDictTimestampWithTimezone d = .ok o) : ValidTimestampWithTimezone o :=
  valid_TimestampWithTimezone d o h
theorem fromDict_valid_Origin (ids : IdFns) (hn : ids.NonEmpty) (d : Val) (o : Origin)
    (h : fromDictOrigin ids d = .ok o) : ValidOrigin o := valid_Origin ids hn d o h
theorem fromDict_valid_OriginVisit (d : Val) (o : OriginVisit)
    (h : fromDictOriginVisit d = .ok o) : ValidOriginVisit o := valid_OriginVisit d o h
theorem fromDict_valid_OriginVisitStatus (d : Val) (o : OriginVisitStatus)
    (h : fromDictOriginVisitStatus d = .ok o) : ValidOriginVisitStatus o :=
  valid_OriginVisitStatus d o h
theorem fromDict_valid_SnapshotBranch (d : Val) (o : SnapshotBranch)
    (h : fromDictSnapshotBranch d = .ok o) : ValidSnapshotBranch o := valid_SnapshotBranch d o h
theorem fromDict_valid_Snapshot (ids : IdFns) (hn : ids.NonEmpty) (d : Val) (o : Snapshot)
    (h : fromDictSnapshot ids d = .ok o) : ValidSnapshot o := valid_Snapshot ids hn d o h
theorem fromDict_valid_Release (ids : IdFns) (hn : ids.NonEmpty) (d : Val) (o : Release)
    (h : fromDictRelease ids d = .ok o) : ValidRelease o := valid_Release ids hn d o h
theorem fromDict_valid_Revision (ids : IdFns) (hn : ids.NonEmpty) (d : Val) (o : Revision)
    (h : fromDictRevision ids d = .ok o) : ValidRevision o := valid_Revision ids hn d o h
theorem fromDict_valid_DirectoryEntry (d : Val) (o : DirectoryEntry)
    (h : fromDictDirectoryEntry d = .ok o) : ValidDirectoryEntry o := valid_DirectoryEntry d o h
theorem fromDict_valid_Directory (ids : IdFns) (hn : ids.NonEmpty) (d : Val) (o : Directory)
    (h : fromDictDirectory ids d = .ok o) : ValidDirectory o := valid_Directory ids hn d o h
theorem fromDict_valid_Content (d : Val) (o : Content) (h : fromDictContent d = .ok o) :
    ValidContent o := valid_Content d o h
theorem fromDict_valid_SkippedContent (d : Val) (o : SkippedContent)
    (h : fromDictSkippedContent d = .ok o) : ValidSkippedContent o := valid_SkippedContent d o h
theorem fromDict_valid_MetadataAuthority (d : Val) (o : MetadataAuthority)
    (h : fromDictMetadataAuthority d = .ok o) : ValidMetadataAuthority o :=
  valid_MetadataAuthority d o h
theorem fromDict_valid_MetadataFetcher (d : Val) (o : MetadataFetcher)
    (h : fromDictMetadataFetcher d = .ok o) : ValidMetadataFetcher o := valid_MetadataFetcher d o h
theorem fromDict_valid_RawExtrinsicMetadata (ids : IdFns) (hn : ids.NonEmpty) (d : Val)
    (o : RawExtrinsicMetadata) (h : fromDictRawExtrinsicMetadata ids d = .ok o) :
    ValidRawExtrinsicMetadata o := valid_RawExtrinsicMetadata ids hn d o h
theorem fromDict_valid_ExtID (ids : IdFns) (hn : ids.NonEmpty) (d : Val) (o : ExtID)
    (h : fromDictExtID ids d = .ok o) : ValidExtID o := valid_ExtID ids hn d o h

/-- an absent, `None` or empty `id` stands for "compute it" (all hashable classes; for ExtID
    this is `d.get("id") or b""`) -/
theorem extid_id_computed_when_absent (ids : IdFns) (o : ExtID) (h : ValidExtID o) :
    ∃ o', fromDictExtID ids (toDictExtID { o with id := [] }) = .ok o' ∧
      o'.id = ids.extID { o with id := [] } ∧ { o' with id := o.id } = o := by
  obtain ⟨h1, h2, _⟩ := h
  have hg1 : (!(o.payload_type.isSome && o.payload.isNone)) = true := by
    cases hp : o.payload_type <;> cases hq : o.payload <;> simp_all
  have hg2 : (!(o.payload.isSome && o.payload_type.isNone)) = true := by
    cases hp : o.payload_type <;> cases hq : o.payload <;> simp_all
  refine ⟨{ o with id := ids.extID { o with id := [] } }, ?_, rfl, rfl⟩
  serde_simp [fromDictExtID, toDictExtID, decSwhid_core o.target h1, hg1, hg2, idOrEmpty, truthy]

/-- **the driver's two dictionaries are equal** for every class name and every dictionary that
    `from_dict` accepts (current or legacy encoding, explicit or absent ids) -/
theorem roundTrip_stable (ids : IdFns) (hn : ids.NonEmpty) (cls : String) (d d1 d2 : Val)
    (h : roundTripWith ids cls d = .ok (d1, d2)) : d1 = d2 :=
  roundTripWith_stable ids hn cls d d1 d2 h

/-! ### non-vacuity -/

def exIds : IdFns :=
  { origin := fun _ => List.replicate 20 7, snapshot := fun _ => [1], release := fun _ => [2],
    revision := fun _ => [3], directory := fun _ => [4], rawExtrinsicMetadata := fun _ => [5],
    extID := fun _ => [6] }

def exId : Bytes := List.replicate 20 0xab

/-- a release with an author but no date, metadata present, raw manifest absent -/
def exRelease : Release :=
  { name := [0x76], message := none, target := some exId, target_type := k!"revision",
    synthetic := false, author := some ⟨[0x41], none, some [0x61]⟩, date := none,
    metadata := some [(k!"k", .list [.int 1, .none])], id := exId, raw_manifest := none }

example : ValidRelease exRelease := by decide
example : fromDictRelease exIds (toDictRelease exRelease) = .ok exRelease :=
  fromDict_toDict_Release exIds exRelease (by decide)

/-- a date with non-canonical offset bytes -/
def exDate : TimestampWithTimezone := ⟨⟨-5, 999999⟩, [0x2b, 0x32]⟩
example : ValidTimestampWithTimezone exDate := by decide

/-- metadata on a content with all seven context keys -/
def exRem : RawExtrinsicMetadata :=
  { target := ⟨tCnt, exId⟩, discovery_date := ⟨1577833261000000, 0⟩,
    authority := ⟨k!"forge", k!"http://a", none⟩, fetcher := ⟨k!"f", k!"1", some []⟩,
    format := k!"json", metadata := [0x7b, 0x7d],
    origin := some k!"http://o", visit := some 3, snapshot := some ⟨tSnp, exId⟩,
    release := some ⟨tRel, exId⟩, revision := some ⟨tRev, exId⟩, path := some [0x2f],
    directory := some ⟨tDir, exId⟩, id := exId }

example : ValidRawExtrinsicMetadata exRem := by decide
example : fromDictRawExtrinsicMetadata exIds (toDictRawExtrinsicMetadata exRem) = .ok exRem :=
  fromDict_toDict_RawExtrinsicMetadata exIds exRem (by decide)

/-- an ExtID with version and payload, built with an explicit id -/
def exExtID : ExtID :=
  { extid_type := k!"hg", extid := [1, 2], target := ⟨tRev, exId⟩, extid_version := 2,
    payload_type := some k!"p", payload := some exId, id := exId }
example : ValidExtID exExtID := by decide
example : fromDictExtID exIds (toDictExtID exExtID) = .ok exExtID :=
  fromDict_toDict_ExtID exIds exExtID (by decide)

/-- a skipped content with every hash missing and unknown length -/
def exSkipped : SkippedContent :=
  { sha1 := none, sha1_git := none, sha256 := none, blake2s256 := none, length := -1,
    status := k!"absent", reason := k!"r", origin := none, ctime := some ⟨0, 120⟩ }
example : ValidSkippedContent exSkipped := by decide

/-- the legacy revision: headers inside the metadata, next to another key -/
def exRevision : Revision :=
  { message := some [0x6d], author := none, committer := some ⟨[0x43], none, none⟩, date := none,
    committer_date := some exDate, type := k!"git", directory := exId, synthetic := true,
    metadata := some [(k!"a", .int 1)], parents := [exId], id := exId,
    extra_headers := [([0x6b], [0x76])], raw_manifest := none }
example : ValidRevision exRevision := by decide
example : mlookup kExtraHeaders [(k!"a", .int 1), (kExtraHeaders, encHeaders exRevision.extra_headers)]
    = some (encHeaders exRevision.extra_headers) := rfl
example : fromDictRevision exIds (toDictRevision { exRevision with
      metadata := some [(k!"a", .int 1), (kExtraHeaders, encHeaders exRevision.extra_headers)],
      extra_headers := [] }) = .ok exRevision := by
  rw [revision_legacy_headers exIds exRevision
    [(k!"a", .int 1), (kExtraHeaders, encHeaders exRevision.extra_headers)] (by decide) rfl rfl]
  exact fromDict_toDict_Revision exIds exRevision (by decide)

/-- the legacy date -/
example : fromDictTimestampWithTimezone (.dict (build
      [(k!"timestamp", some (.int 5)), (k!"offset", some (.int 0)), (k!"negative_utc", some (.bool true))]))
    = .ok ⟨⟨5, 0⟩, [0x2d, 0x30, 0x30, 0x30, 0x30]⟩ := by
  rw [tstz_legacy_offset _ _ _ (by decide) (by decide) (by decide),
    (Swh.C16.minus_zero_iff 0 true).2 ⟨rfl, rfl⟩]
  rfl

/-- **Enum and choice tables**: the value tables the decoders accept are the live ones
    (`RevisionType`, `MetadataAuthorityType`, and the `in_` validators of the three `status`
    fields), regenerated from the code on every run. -/
theorem enum_tables :
    revisionTypes = Gen.revisionTypes.map ofString ∧
    authorityTypes = Gen.authorityTypes.map ofString ∧
    visitStatuses = Gen.visitStatuses.map ofString ∧
    contentStatuses = Gen.contentStatuses.map ofString ∧
    skippedStatuses = Gen.skippedStatuses.map ofString := by decide

end Swh.C12
